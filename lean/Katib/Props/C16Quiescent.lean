import Katib.Props.C04Quiescent
import Katib.Props.C16World
import Katib.Props.C03Frozen
/-!
# C16 at quiescence: after completion under Never / FromVolume the algorithm service is gone

`C16_quiescent_cleanup`: for **every** store (not only reachable ones) in which neither the experiment controller nor the
suggestion controller has a write to issue (plans computed on live reads), an Experiment that carries a verdict under resume
policy Never or FromVolume has a Suggestion that is completed (Succeeded or Failed) or restarting; and when it is Succeeded,
neither the algorithm Deployment nor its Service exists any more.  (The experiment controller's clean-up step is a write as
long as the Suggestion is neither; the suggestion controller's plan for a Succeeded Suggestion consists of the two deletes.)
Under LongRunning the service is kept: `C16_longrunning_service_kept`.
-/
namespace Katib.Ctl
open Katib Katib.Exp

/-- the experiment controller still has the clean-up write to issue unless the Suggestion is completed or restarting -/
theorem exp_quiescent_cleanup (w : World) (k : Key2) (now : Nat) (e : ExpO) (s : SugO)
    (he : findExp w k = some e) (hs : findSug w k = some s) (hd : e.deleted = false) (hf : e.fin = true)
    (hc : isCompleted e.st.conds = true) (hr : e.cfg.resume = .never ∨ e.cfg.resume = .fromVolume)
    (q : (expPlan w k now).noWrites) : (sCompleted s || sRestarting s) = true := by
  cases hcs : (sCompleted s || sRestarting s) with
  | true => rfl
  | false =>
    exfalso
    unfold expPlan at q
    simp only [he, hs, hd, hf, hc, hr, hcs, Bool.not_false, Bool.not_true, Bool.and_false,
      Bool.and_true, Bool.false_eq_true, if_false, if_true] at q
    -- whatever follows, the clean-up step is the first call of the plan
    split at q
    · have := (nw_step q).1; simp [isWrite] at this
    · split at q
      · have := (nw_step q).1; simp [isWrite] at this
      · have := (nw_step q).1; simp [isWrite] at this

/-- the suggestion controller still has a delete to issue for a Succeeded Suggestion whose Deployment or Service exists -/
theorem sug_quiescent_removed (w : World) (k : Key2) (now : Nat) (s : SugO) (hs : findSug w k = some s)
    (hS : sHas s .succeeded = true) (q : (sugPlan w k {} now).noWrites) :
    (findDeploy w (infraKey k)).isSome = false ∧ w.svcs.contains (infraKey k) = false := by
  unfold sugPlan at q
  simp only [hs, hS, if_true] at q
  cases hdp : (findDeploy w (infraKey k)).isSome with
  | true =>
    exfalso
    simp only [hdp, if_true] at q
    have := (nw_step q).1; simp [isWrite] at this
  | false =>
    refine ⟨rfl, ?_⟩
    simp only [hdp, Bool.false_eq_true, if_false] at q
    cases hsv : w.svcs.contains (infraKey k) with
    | false => rfl
    | true =>
      exfalso
      simp only [hsv, if_true] at q
      have := (nw_step q).1; simp [isWrite] at this

/-- **C16_quiescent_cleanup** -/
theorem C16_quiescent_cleanup (w : World) (k : Key2) (now : Nat) (e : ExpO) (s : SugO)
    (he : findExp w k = some e) (hs : findSug w k = some s) (hd : e.deleted = false) (hf : e.fin = true)
    (hc : isCompleted e.st.conds = true) (hr : e.cfg.resume = .never ∨ e.cfg.resume = .fromVolume)
    (qE : (expPlan w k now).noWrites) (qS : (sugPlan w k {} now).noWrites) :
    (sCompleted s || sRestarting s) = true ∧
    (sHas s .succeeded = true → (findDeploy w (infraKey k)).isSome = false ∧ w.svcs.contains (infraKey k) = false) :=
  ⟨exp_quiescent_cleanup w k now e s he hs hd hf hc hr qE, fun hS => sug_quiescent_removed w k now s hs hS qS⟩

/-! Non-vacuity: the schedule of `Props/C03Frozen.lean` (one Trial, resume policy Never, completed, budget raised afterwards)
followed by a few more reconciles ends in a store that meets every hypothesis of `C16_quiescent_cleanup`: both plans are
write-free, the Suggestion is Succeeded and Deployment and Service are gone. -/
def cleanupOps : List Op :=
  frozenOps ++ [.recSug frozenKey 100 100 100 100 {} {}, .recSug frozenKey 100 100 100 100 {} {}, .recExp frozenKey 100 100 100 {},
    .recSug frozenKey 100 100 100 100 {} {}]

example :
    (expPlan (run (Sim.init [frozenExp]) cleanupOps).cur frozenKey 99).noWrites ∧
    (sugPlan (run (Sim.init [frozenExp]) cleanupOps).cur frozenKey {} 99).noWrites ∧
    (findSug (run (Sim.init [frozenExp]) cleanupOps).cur frozenKey).map (fun s => sHas s .succeeded) = some true ∧
    (findExp (run (Sim.init [frozenExp]) cleanupOps).cur frozenKey).map (fun e => (e.fin, e.deleted, isCompleted e.st.conds)) = some (true, false, true) ∧
    (findDeploy (run (Sim.init [frozenExp]) cleanupOps).cur (infraKey frozenKey)).isSome = false := by decide

end Katib.Ctl
