import Katib.Gen.Guards
import Katib.Model.LogParse
/-!
# C13: the model of the log parsers decides under the source's path conditions

`Katib/Gen/Guards.lean` (regenerated on every run by `kvh extract guards`) holds the conditions under which
`parseLogsInTextFormat` takes a line's first token as the timestamp and appends a metric log, `newObservationLog` returns
the single `unavailable` entry, and `parseLogsInJsonFormat` returns the JSON error, takes the parsed timestamp and appends a
metric log (pkg/metricscollector/v1beta1/file-metricscollector/file-metricscollector.go).  The model's functions make each of
these decisions under exactly that condition.
-/
namespace Katib.Gen
open Katib.Log

theorem C13_parser_guards_known :
    textUseTokenGuardUnknown = [] ∧ textAppendGuardUnknown = [] ∧ obsUnavailableGuardUnknown = [] ∧ jsonErrorGuardUnknown = [] ∧
    jsonUseTsGuardUnknown = [] ∧ jsonAppendGuardUnknown = [] ∧ textUseTokenGuardSites = 1 ∧ textAppendGuardSites = 1 ∧
    obsUnavailableGuardSites = 1 ∧ jsonErrorGuardSites = 1 ∧ jsonUseTsGuardSites = 1 ∧ jsonAppendGuardSites = 1 := by decide

abbrev LpG := Bool → Bool → Bool → Bool → Bool → Bool → Bool → Bool → Bool → Bool → Bool → Bool

/-! ## text format -/

/-- the guards inside one line of the text format: keyword pre-filter, the SplitN / time.Parse outcome, one match, one name -/
def textG (hasKeyword noSpace parseFailed shortMatch otherName : Bool) (g : LpG) : Bool :=
  g hasKeyword noSpace parseFailed shortMatch otherName false false false false false false

/-- the timestamp of a line: its first token exactly when the line has a space and the token parses (`firstToken` of the model
    is `some` exactly then), the zero time otherwise -/
theorem C13_text_timestamp_is_source (l : TextLine) (noSpace parseFailed : Bool)
    (h : l.firstToken.isSome = (!noSpace && !parseFailed)) :
    (match l.firstToken with | some t => t | none => zeroTime) =
      if textG true noSpace parseFailed false false textUseTokenGuard then l.firstToken.getD zeroTime else zeroTime := by
  unfold textG textUseTokenGuard
  cases hf : l.firstToken <;> cases noSpace <;> cases parseFailed <;> simp_all

/-- one step of the innermost loop: the record is appended (and the loop left) exactly under the generated condition -/
theorem C13_text_append_is_source (x : String) (xs : List String) (ts : String) (m : Match) :
    (if m.groups < 3 then [] else firstTracked (x :: xs) ts m) =
      if textG true false false (decide (m.groups < 3)) (decide (m.name ≠ x)) textAppendGuard
      then [{ ts := ts, name := m.name, value := m.value }]
      else if m.groups < 3 then [] else firstTracked xs ts m := by
  unfold textG textAppendGuard
  by_cases hg : m.groups < 3 <;> by_cases hn : m.name = x <;> simp [hg, hn, firstTracked]

/-- **C13_first_tracked_loop_is_source**: the innermost loop as a whole — for every list of tracked names, one record is appended
    exactly when some iteration's regenerated append condition holds (the first such iteration leaves the loop), none otherwise -/
theorem C13_first_tracked_loop_is_source (metrics : List String) (ts : String) (m : Match) :
    (if m.groups < 3 then [] else firstTracked metrics ts m) =
      match metrics.find? (fun x => textG true false false (decide (m.groups < 3)) (decide (m.name ≠ x)) textAppendGuard) with
      | some _ => [{ ts := ts, name := m.name, value := m.value }]
      | none => [] := by
  induction metrics with
  | nil => simp [firstTracked]
  | cons x xs ih =>
    rw [C13_text_append_is_source x xs ts m, List.find?_cons]
    cases textG true false false (decide (m.groups < 3)) (decide (m.name ≠ x)) textAppendGuard with
    | true => simp
    | false => simpa using ih

/-- at most one record per match, and it carries the match's own name and value and the line's timestamp -/
theorem C13_first_tracked_at_most_one (metrics : List String) (ts : String) (m : Match) :
    (if m.groups < 3 then [] else firstTracked metrics ts m) = [] ∨
    (if m.groups < 3 then [] else firstTracked metrics ts m) = [{ ts := ts, name := m.name, value := m.value }] := by
  rw [C13_first_tracked_loop_is_source]
  cases metrics.find? (fun x => textG true false false (decide (m.groups < 3)) (decide (m.name ≠ x)) textAppendGuard) <;> simp

/-- a line without any tracked name as a substring is skipped: nothing is appended, whatever it matches -/
theorem C13_text_prefilter_is_source (metrics : List String) (l : TextLine) (h : l.isMetricLine = false) (a b c d : Bool) :
    lineRecs metrics l = [] ∧ textG l.isMetricLine a b c d textAppendGuard = false ∧
    textG l.isMetricLine a b c d textUseTokenGuard = false := by
  unfold lineRecs textG textAppendGuard textUseTokenGuard; simp [h]

/-! ## `newObservationLog` -/

theorem C13_unavailable_is_source (recs : List Rec) (obj : String) (ms : List String) :
    finish recs (obj :: ms) =
      if obsUnavailableGuard false false false false false (recs.any (fun r => r.name = obj)) false false false false false
      then some [{ ts := zeroTime, name := obj, value := unavailable }] else some recs := by
  unfold finish obsUnavailableGuard
  cases h : recs.any (fun r => decide (r.name = obj)) <;> simp [h]

/-! ## JSON format -/

def jsonG (emptyLine parseFailed tsPresent valueIsString tsUnusable : Bool) (g : LpG) : Bool :=
  g false false parseFailed false false false emptyLine tsPresent valueIsString tsUnusable false

def jlEmpty : JLine → Bool | .empty => true | _ => false
def jlInvalid : JLine → Bool | .invalid => true | _ => false
def jtsPresent : JTs → Bool | .absent => false | _ => true
/-- `parseTimestamp`: `none` = the empty string -/
def jtsParsed : JTs → Option OutTs
  | .str (some s) => some (.text s)
  | .num i f _ => (epochNanos i f).map .nanos
  | _ => none

/-- the error return: exactly for a non-empty line that is not a JSON object (`d`: an empty line is never unmarshalled) -/
theorem C13_json_error_is_source (l : JLine) (d : Bool) (r : List JLine) (metrics : List String) :
    parseJson.go metrics (l :: r) =
      if jsonG (jlEmpty l) (match l with | .empty => d | _ => jlInvalid l) false false false jsonErrorGuard then none
      else match l with
        | .obj ts vals => (parseJson.go metrics r).map (fun rest => jsonLineRecs metrics ts vals ++ rest)
        | _ => parseJson.go metrics r := by
  unfold jsonG jsonErrorGuard
  cases l <;> simp [parseJson.go, jlEmpty, jlInvalid]

/-- the timestamp of a JSON line: the parsed one exactly when the key is present and `parseTimestamp` gives a non-empty text -/
theorem C13_json_timestamp_is_source (t : JTs) :
    jsonTs t = if jsonG false false (jtsPresent t) false (jtsParsed t).isNone jsonUseTsGuard then (jtsParsed t).getD (.text zeroTime)
               else .text zeroTime := by
  unfold jsonG jsonUseTsGuard jsonTs
  cases t with
  | absent => simp [jtsPresent]
  | str o => cases o <;> simp [jtsPresent, jtsParsed]
  | num i f n => cases h : epochNanos i f <;> simp [jtsPresent, jtsParsed, h]
  | other => simp [jtsPresent, jtsParsed]

/-- one tracked metric of a JSON line: a record exactly when its value is a JSON string -/
theorem C13_json_append_is_source (ts : JTs) (m : String) (v : Option String) :
    (v.map (fun s => ({ ts := jsonTs ts, name := m, value := s } : JRec))).toList =
      if jsonG false false false v.isSome false jsonAppendGuard then [{ ts := jsonTs ts, name := m, value := v.getD "" }] else [] := by
  unfold jsonG jsonAppendGuard
  cases v <;> simp

end Katib.Gen
