import Katib.Props.C03
import Katib.Props.C04Quiescent
/-!
# C03 over whole schedules: Succeeded and Failed are never both true, and Running is not true once a verdict exists

`C03_exclusive_world`: for every list of simulator operations (no hypothesis on the schedule) every Experiment of the
current store satisfies both.  The status a reconcile writes is computed from the (possibly stale) Experiment it read; the
invariant holds for that copy because it holds for every snapshot, and `C03_exclusive` / `C03_running_false` /
`expUpdateStatus_frozen` carry it through `UpdateExperimentStatus`, the restart and the suggestion-failed branch.
-/
namespace Katib.Ctl
open Katib Katib.Exp

def EOk (cs : List ECond) : Prop :=
  ¬ (isSucceeded cs = true ∧ isFailed cs = true) ∧ (isCompleted cs = true → Cond.has cs .running = false)

theorem eok_of_same {a b : List ECond} (h1 : Cond.has b .succeeded = Cond.has a .succeeded) (h2 : Cond.has b .failed = Cond.has a .failed)
    (h3 : Cond.has b .running = Cond.has a .running) (h : EOk a) : EOk b := by
  unfold EOk isCompleted isSucceeded isFailed at *
  rw [h1, h2, h3]; exact h

theorem eok_not_completed {cs : List ECond} (h : isCompleted cs = false) : EOk cs := by
  unfold isCompleted at h
  simp only [Bool.or_eq_false_iff] at h
  refine ⟨fun hh => (by rw [h.1] at hh; cases hh.1), fun hh => ?_⟩
  unfold isCompleted at hh; rw [h.1, h.2] at hh; cases hh

theorem eok_update (e : ExpO) (st : ExpSt) (ts : List TrialO) (now : Nat) (h : EOk st.conds) :
    EOk (expUpdateStatus e st ts now).conds := by
  cases hc : isCompleted st.conds with
  | true => rw [(expUpdateStatus_frozen e st ts now hc).1]; exact h
  | false =>
    rw [conds_of_update e st ts now hc]
    refine ⟨C03_exclusive _ _ _ _ _ now hc, fun hd => C03_running_false _ _ _ _ _ now hd hc⟩

theorem eok_markFailed (cs : List ECond) (r : String) (now : Nat) (hnc : isCompleted cs = false) : EOk (markFailed cs r now) := by
  obtain ⟨a, b, c, _⟩ := markFailed_spec cs r now
  unfold isCompleted at hnc
  simp only [Bool.or_eq_false_iff] at hnc
  exact ⟨fun hh => (by rw [b, hnc.1] at hh; cases hh.1), fun _ => c⟩

theorem eok_markRestarting (cs : List ECond) (now : Nat) : EOk (markRestarting cs now) := by
  apply eok_not_completed
  unfold isCompleted isSucceeded isFailed markRestarting
  rw [Cond.has_set_other _ (by decide), Cond.has_set_other _ (by decide), Cond.has_remove_other _ (by decide), Cond.has_remove_self,
    Cond.has_remove_self]
  rfl

def EJust : Call → Prop
  | .expStatus _ _ st' => EOk st'.conds
  | _ => True

theorem ej_expFinish (e : ExpO) (st : ExpSt) (h : EOk st.conds) : (expFinish e st).All EJust := by
  unfold expFinish; split
  · trivial
  · exact ⟨h, trivial, trivial⟩

theorem ej_creates (e : ExpO) (l : List String) (k : Prog) (hk : k.All EJust) :
    (l.foldr (fun a k => Prog.step (.trialCreate (mkTrial e a)) k k) k).All EJust := by
  induction l with
  | nil => exact hk
  | cons a l ih => exact ⟨trivial, ih, ih⟩

theorem ej_expCreateTrials (v : World) (e : ExpO) (st : ExpSt) (ts : List TrialO) (add : Int) (now : Nat)
    (h : EOk st.conds) (hnc : isCompleted st.conds = false) : (expCreateTrials v e st ts add now).All EJust := by
  unfold expCreateTrials
  simp only []
  split
  · exact ⟨trivial, ej_expFinish e st h, trivial⟩
  · split
    · exact ej_expFinish e _ (eok_markFailed _ _ _ hnc)
    · split
      · exact ⟨trivial, ej_creates e _ _ (ej_expFinish e st h), trivial⟩
      · exact ej_creates e _ _ (ej_expFinish e st h)

theorem ej_expMain (v : World) (e : ExpO) (st : ExpSt) (now : Nat) (h : EOk st.conds) : (expMain v e st now).All EJust := by
  unfold expMain
  split
  · apply ej_expFinish
    exact eok_of_same (Cond.has_set_other _ (by decide) _ _ _) (Cond.has_set_other _ (by decide) _ _ _) (Cond.has_set_other _ (by decide) _ _ _) h
  · simp only []
    have h1 : EOk (if (trialsOf v e.key).isEmpty = true then st else expUpdateStatus e st (trialsOf v e.key) now).conds := by
      split
      · exact h
      · exact eok_update e st _ now h
    generalize (if (trialsOf v e.key).isEmpty = true then st else expUpdateStatus e st (trialsOf v e.key) now) = st1 at h1
    split
    · rename_i hnc
      have hnc' : isCompleted st1.conds = false := by simpa using hnc
      unfold expReconcileTrials
      split
      · trivial
      · split
        · split
          · exact ej_expCreateTrials v e st1 _ _ now h1 hnc'
          · exact ej_expFinish e st1 h1
        · exact ej_expFinish e st1 h1
    · exact ej_expFinish e st1 h1

theorem expPlan_ej (v : World) (k : Key2) (now : Nat) (hv : ∀ e, findExp v k = some e → EOk e.st.conds) : (expPlan v k now).All EJust := by
  cases he : findExp v k with
  | none => unfold expPlan; rw [he]; trivial
  | some e =>
    have hk := findExp_key he
    have h := hv e he
    unfold expPlan
    rw [he]
    simp only []
    split
    · exact ⟨trivial, trivial, trivial⟩
    · split
      · exact ⟨trivial, trivial, trivial⟩
      · split
        · have cleanupOk : ∀ next : Prog, next.All EJust →
              (if e.cfg.resume = Resume.never ∨ e.cfg.resume = Resume.fromVolume then
                match findSug v k with
                | none => next
                | some s =>
                  if (sCompleted s || sRestarting s) = true then next
                  else Prog.step (Call.sugStatus k s.rv { s.st with conds := sugMarkSucceeded s.st.conds rSugExpSucceeded now }) next (Prog.done Res.err)
               else next).All EJust := by
            intro next hn
            split
            · split
              · exact hn
              · split
                · exact hn
                · exact ⟨trivial, hn, trivial⟩
            · exact hn
          have mainR := ej_expMain v e { e.st with conds := markRestarting e.st.conds now } now (eok_markRestarting _ _)
          split
          · apply cleanupOk
            split
            · split
              · exact mainR
              · split
                · exact mainR
                · exact ⟨trivial, mainR, trivial⟩
            · exact mainR
          · split
            · exact cleanupOk _ trivial
            · exact cleanupOk _ (ej_expMain v e e.st now h)
        · exact ej_expMain v e e.st now h


/-! ### the calls a trial reconcile can issue at all -/

def TrialCall : Call → Prop
  | .trialUpdateFin _ _ _ => True
  | .trialStatus _ _ _ => True
  | .jobCreate _ => True
  | .jobDelete _ => True
  | .dbGet _ => True
  | .dbDelete _ => True
  | .dbReport _ _ => True
  | _ => False

theorem tc_trialFinish (t : TrialO) (st : TrialSt) : (trialFinish t st).All TrialCall := by
  unfold trialFinish; split
  · trivial
  · exact ⟨trivial, trivial, trivial⟩

theorem tc_trialUpdateCondition (t : TrialO) (st : TrialSt) (js : JobCond) (now : Nat) : (trialUpdateCondition t st js now).All TrialCall := by
  unfold trialUpdateCondition
  simp only []
  repeat' first
    | exact tc_trialFinish _ _
    | split
    | (refine ⟨trivial, ?_, ?_⟩)
    | trivial

theorem tc_trialObserve (v : World) (t : TrialO) (js : JobCond) (now : Nat) : (trialObserve v t js now).All TrialCall := by
  unfold trialObserve
  simp only []
  repeat' first
    | exact tc_trialUpdateCondition _ _ _ _
    | split
    | (refine ⟨trivial, ?_, ?_⟩)
    | trivial

theorem tc_trialAfterJob (v : World) (t : TrialO) (state : JobState) (now : Nat) : (trialAfterJob v t state now).All TrialCall := by
  unfold trialAfterJob
  repeat' first
    | exact tc_trialFinish _ _
    | exact tc_trialObserve _ _ _ _
    | split
    | trivial

theorem trialPlan_calls (v : World) (k : Key2) (now : Nat) : (trialPlan v k now).All TrialCall := by
  unfold trialPlan
  split
  · trivial
  · simp only []
    repeat' first
      | exact tc_trialFinish _ _
      | exact tc_trialAfterJob _ _ _ _
      | split
      | (refine ⟨trivial, ?_, ?_⟩)
      | trivial

theorem trialPlan_ej (v : World) (k : Key2) (now : Nat) : (trialPlan v k now).All EJust :=
  (trialPlan_calls v k now).mono (fun c hc => by cases c <;> first | trivial | exact absurd hc id)

theorem sugPlan_ej (v : World) (k : Key2) (env : SugEnv) (now : Nat) : (sugPlan v k env now).All EJust := by
  cases hs : findSug v k with
  | none => unfold sugPlan; rw [hs]; trivial
  | some s =>
    refine (sugPlan_guard v k env now s hs).mono ?_
    intro c hc
    cases c with
    | expStatus _ _ _ => exact absurd hc id
    | _ => trivial

/-! ### the store invariant and whole schedules -/

def EInv (w : World) : Prop := ∀ e ∈ w.exps, EOk e.st.conds

theorem einv_same {w w' : World} (e : w'.exps = w.exps) (h : EInv w) : EInv w' := by
  unfold EInv; rw [e]; exact h

theorem einv_upd {w : World} (k : Key2) (f : ExpO → ExpO) (hf : ∀ e, EOk e.st.conds → EOk (f e).st.conds) (h : EInv w) :
    EInv (updExp w k f) := by
  intro e' he'
  unfold updExp at he'
  simp only [List.mem_map] at he'
  obtain ⟨e, he, rfl⟩ := he'
  split
  · exact hf e (h e he)
  · exact h e he

theorem einv_find {w : World} (h : EInv w) (k : Key2) : ∀ e, findExp w k = some e → EOk e.st.conds := by
  intro e he
  unfold findExp at he
  exact h e (List.mem_of_find?_eq_some he)

theorem apply_pres_E {w w' : World} {c : Call} (hE : EInv w) (hJ : EJust c) (h : applyCall w c = .ok w') : EInv w' := by
  cases c with
  | expStatus k' rv st =>
    simp only [applyCall] at h; split at h
    · cases h
    · split at h <;> cases h
      exact einv_upd _ _ (fun _ _ => hJ) hE
  | expUpdateFin k' rv fin =>
    simp only [applyCall] at h; split at h
    · cases h
    · split at h <;> cases h
      exact einv_upd _ _ (fun _ he => he) hE
  | trialCreate t => simp only [applyCall] at h; split at h <;> cases h; exact einv_same rfl hE
  | trialStatus k' rv st =>
    simp only [applyCall] at h; split at h
    · cases h
    · split at h <;> cases h; exact einv_same rfl hE
  | trialUpdateFin k' rv fin =>
    simp only [applyCall] at h; split at h
    · cases h
    · split at h
      · cases h
      · split at h <;> cases h <;> exact einv_same rfl hE
  | trialDelete k' =>
    simp only [applyCall] at h; split at h
    · cases h
    · split at h <;> cases h <;> exact einv_same rfl hE
  | sugCreate s => simp only [applyCall] at h; split at h <;> cases h; exact einv_same rfl hE
  | sugUpdateReq k' rv req =>
    simp only [applyCall] at h; split at h
    · cases h
    · split at h <;> cases h; exact einv_same rfl hE
  | sugStatus k' rv st =>
    simp only [applyCall] at h; split at h
    · cases h
    · split at h <;> cases h; exact einv_same rfl hE
  | jobCreate k' => simp only [applyCall] at h; split at h <;> cases h; exact einv_same rfl hE
  | jobDelete k' => simp only [applyCall] at h; split at h <;> cases h; exact einv_same rfl hE
  | deployCreate k' => simp only [applyCall] at h; split at h <;> cases h; exact einv_same rfl hE
  | deployDelete k' => simp only [applyCall] at h; split at h <;> cases h; exact einv_same rfl hE
  | svcCreate k' =>
    simp only [applyCall, createKey] at h; split at h
    · cases h
    · cases h; exact einv_same rfl hE
  | svcDelete k' => simp only [applyCall] at h; split at h <;> cases h; exact einv_same rfl hE
  | pvcCreate k' =>
    simp only [applyCall, createKey] at h; split at h
    · cases h
    · cases h; exact einv_same rfl hE
  | saCreate k' =>
    simp only [applyCall, createKey] at h; split at h
    · cases h
    · cases h; exact einv_same rfl hE
  | roleCreate k' =>
    simp only [applyCall, createKey] at h; split at h
    · cases h
    · cases h; exact einv_same rfl hE
  | rbCreate k' =>
    simp only [applyCall, createKey] at h; split at h
    · cases h
    · cases h; exact einv_same rfl hE
  | rpcValidate e => simp only [applyCall] at h; cases h; exact einv_same rfl hE
  | rpcValidateES => simp only [applyCall] at h; cases h; exact einv_same rfl hE
  | rpcGetSuggestions e cur total ts consume ok => simp only [applyCall] at h; split at h <;> cases h; exact einv_same rfl hE
  | rpcGetRules e ok => simp only [applyCall] at h; split at h <;> cases h; exact einv_same rfl hE
  | dbGet t => simp only [applyCall] at h; cases h; exact einv_same rfl hE
  | dbDelete t => simp only [applyCall] at h; cases h; exact einv_same rfl hE
  | dbReport t e => simp only [applyCall] at h; split at h <;> cases h <;> exact einv_same rfl hE

def SInvE (s : Sim) : Prop := EInv s.cur ∧ ∀ (i : Nat) (h : World), s.hist[i]? = some h → EInv h

theorem snap_goodE {s : Sim} (hI : SInvE s) (i : Nat) : EInv (snapAt s i) := by
  unfold snapAt
  cases h : s.hist[i]? with
  | none => exact hI.1
  | some w => exact hI.2 i w h

theorem exec_E {w0 : World} (f : Faults) (p : Prog) (hp : p.All EJust) (hE : EInv w0) : EInv (exec f p w0 0 []).w :=
  exec_preserves (I := EInv) (P := EJust) f (fun _ _ _ hI hc happ => apply_pres_E hI hc happ) p w0 0 [] hp hE

theorem stepWorld_okE {s : Sim} (hI : SInvE s) (op : Op) : EInv (stepWorld s op).1 := by
  have hE := hI.1
  cases op with
  | recExp k' vE vT vS f =>
    refine exec_E f _ (expPlan_ej _ k' s.opIndex ?_) hE
    exact einv_find (snap_goodE hI vE) k'
  | recSug k' vS vE vT vD f env => exact exec_E f _ (sugPlan_ej _ k' env s.opIndex) hE
  | recTrial k' vT f => exact exec_E f _ (trialPlan_ej _ k' s.opIndex) hE
  | job k' ok => simp only [stepWorld]; split <;> first | exact hE | exact einv_same rfl hE
  | metric t text key nm => simp only [stepWorld]; split <;> exact einv_same rfl hE
  | earlyStop k' =>
    simp only [stepWorld]
    split
    · exact hE
    · split <;> first | exact hE | exact einv_same rfl hE
  | deployReady k' => simp only [stepWorld]; split <;> first | exact hE | exact einv_same rfl hE
  | editMax k' n =>
    simp only [stepWorld]
    split
    · exact hE
    · exact einv_upd _ _ (fun _ he => he) hE
  | jobGone k' =>
    simp only [stepWorld]
    split
    · exact hE
    · split <;> first | exact hE | exact einv_same rfl hE
  | userDelete k' =>
    simp only [stepWorld]
    split
    · exact hE
    · split
      · exact hE
      · split <;> exact einv_same rfl hE
  | noop => exact hE

theorem step_invE {s : Sim} (hI : SInvE s) (op : Op) : SInvE (step s op).1 := by
  have hW := stepWorld_okE hI op
  unfold step
  refine ⟨hW, ?_⟩
  intro i h hh
  rw [Array.getElem?_push] at hh
  by_cases hi : i = s.hist.size
  · rw [if_pos hi] at hh; cases hh; exact hW
  · rw [if_neg hi] at hh; exact hI.2 i h hh

theorem run_invE (ops : List Op) : ∀ {s : Sim}, SInvE s → SInvE (run s ops) := by
  induction ops with
  | nil => intro s h; exact h
  | cons op r ih => intro s h; exact ih (step_invE h op)

theorem init_invE (es : List ExpInit) : SInvE (Sim.init es) := by
  have hE : EInv (Sim.init es).cur := by
    intro e he
    simp only [Sim.init, List.mem_map] at he
    obtain ⟨ei, _, rfl⟩ := he
    exact eok_not_completed rfl
  refine ⟨hE, ?_⟩
  intro i h hh
  simp only [Sim.init] at hh
  have : h = (Sim.init es).cur := by
    cases i with
    | zero => simp at hh; exact hh.symm
    | succ j => simp at hh
  rw [this]; exact hE

/-- **C03_exclusive_world**: over every schedule (no hypothesis), no Experiment is both Succeeded and Failed, and an
    Experiment that carries a verdict is not Running. -/
theorem C03_exclusive_world (es : List ExpInit) (ops : List Op) :
    ∀ e ∈ (run (Sim.init es) ops).cur.exps,
      ¬ (isSucceeded e.st.conds = true ∧ isFailed e.st.conds = true) ∧
      (isCompleted e.st.conds = true → Cond.has e.st.conds .running = false) :=
  (run_invE ops (init_invE es)).1

end Katib.Ctl
