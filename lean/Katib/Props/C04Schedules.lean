import Katib.Props.C04Quiescent
import Katib.Props.C06Objective
import Katib.Props.C08Names
/-!
# C04 on schedules, with the uniqueness of assignment names discharged

`C04_quiescent_verdict_on_schedules` (Props/C04Quiescent.lean) still assumed that the Suggestion's assignment names are
pairwise distinct in the reached store; `C08_names_unique_world` proves that for every schedule, so the hypothesis goes.
What remains assumed about the reached store: the Suggestion is not Succeeded, and an Experiment without Trials has zero
counters.
-/
namespace Katib.Ctl
open Katib Katib.Exp

theorem C04_quiescent_verdict_on_schedules_names (k : Key2) (m : Int) (hm1 : 1 ≤ m) (es : List ExpInit) (ops : List Op)
    (hinit : ∀ e ∈ es, e.key = k → e.maxT = some m)
    (hops : ∀ op ∈ ops, ∀ n, op ≠ .editMax k n) (hopd : ∀ op ∈ ops, ∀ k', op ≠ .userDelete k')
    (now : Nat) (e : ExpO) :
    let w := (run (Sim.init es) ops).cur
    findExp w k = some e → 1 ≤ e.par → e.deleted = false →
    (expPlan w k now).noWrites → (sugPlan w k {} now).noWrites → (∀ t ∈ trialsOf w k, (trialPlan w t.key now).noWrites) →
    (∀ t ∈ trialsOf w k, ∀ j, findJob w t.key = some j → j.state ≠ .running) →
    (∀ t ∈ trialsOf w k, ∀ j, findJob w t.key = some j → j.state = .succeeded →
      (t.push = false → (dbOf w t.key.name).isEmpty = false) ∧
      ((dbOf w t.key.name).isEmpty = false → (Metrics.getMetrics (dbOf w t.key.name) [objMetric]).isSome = true)) →
    (∀ d, findDeploy w (infraKey k) = some d → d.ready = true) →
    (∀ t ∈ trialsOf w k, (!obsAvailable t.st && tHas t .earlyStopped) = false) →
    (∀ s, findSug w k = some s → sHas s .succeeded = false) →
    (trialsOf w k = [] → activeCount e.st = 0 ∧ completedCount e.st = 0) →
    isCompleted e.st.conds = true := by
  intro w he hpar hdel qE qS qT envJ envM envD nw wfS wf0
  refine C04_quiescent_verdict_on_schedules k m hm1 es ops hinit hops hopd now e he hpar hdel qE qS qT envJ envM envD nw ?_ wf0
  intro s hs
  exact ⟨wfS s hs, (C08_names_unique_world k es ops).1 s hs⟩

end Katib.Ctl
