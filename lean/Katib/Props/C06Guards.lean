import Katib.Gen.Guards
import Katib.Model.Reconcile
/-!
# The model's `UpdateTrialStatusCondition` is the source's, rebuilt from its regenerated path conditions

`Katib/Gen/Guards.lean` (regenerated on every run) holds the conditions under which `UpdateTrialStatusCondition`
(pkg/controller.v1beta1/trial/trial_controller_util.go) reaches `MarkTrialStatusSucceeded`, `…MetricsUnavailable`, `…Failed` and
`…Running`.  `trialUpdateConditionGen` puts the model's four writes behind exactly these conditions; the hand-written model
function is that function, for every Trial, status, job condition and time.
-/
namespace Katib.Gen
open Katib Katib.Ctl

def trialUpdateConditionGen (t : TrialO) (st : TrialSt) (js : JobCond) (now : Nat) : Prog :=
  let has (c : TCT) := Cond.has st.conds c
  let at_ (g : Bool → Bool → Bool → Bool → Bool → Bool → Bool → Bool → Bool → Bool → Bool → Bool → Bool → Bool → Bool) : Bool :=
    g (js == .succeeded) (js == .failed) (js == .running) (obsAvailable st) (has .succeeded) (has .earlyStopped) (has .metricsUnavailable)
      (has .failed) (has .running) t.push false false false false
  if at_ markSucceededGuard then
    trialFinish t { st with conds := tMark st.conds .succeeded rTrialSucceeded now, completion := some now }
  else if at_ markUnavailableGuard then
    let k := trialFinish t { st with conds := tMark st.conds .metricsUnavailable rTrialMU now, completion := some now }
    if t.push then .step (.dbReport t.key.name unavailableEntry) k (.done .requeueAfter) else k
  else if at_ markFailedGuard then
    trialFinish t { st with conds := tMark st.conds .failed rTrialFailed now, completion := some now }
  else if at_ markRunningGuard then
    trialFinish t { st with conds := Cond.set st.conds .running true rTrialRunning now }
  else trialFinish t st

/-- the translator met only conditions it knows and exactly one call site for each mark -/
theorem C06_mark_guards_known :
    markSucceededGuardUnknown = [] ∧ markUnavailableGuardUnknown = [] ∧ markFailedGuardUnknown = [] ∧ markRunningGuardUnknown = [] ∧
    markSucceededGuardSites = 1 ∧ markUnavailableGuardSites = 1 ∧ markFailedGuardSites = 1 ∧ markRunningGuardSites = 1 := by decide

set_option linter.unusedSimpArgs false in
/-- **C06_update_condition_is_source** -/
theorem C06_update_condition_is_source (t : TrialO) (st : TrialSt) (js : JobCond) (now : Nat) :
    trialUpdateCondition t st js now = trialUpdateConditionGen t st js now := by
  unfold trialUpdateCondition trialUpdateConditionGen markSucceededGuard markUnavailableGuard markFailedGuard markRunningGuard
  cases js <;> cases h1 : obsAvailable st <;> cases h2 : Cond.has st.conds .succeeded <;> cases h3 : Cond.has st.conds .earlyStopped <;>
    cases h4 : Cond.has st.conds .metricsUnavailable <;> cases h5 : Cond.has st.conds .failed <;>
    cases h6 : Cond.has st.conds .running <;> cases h7 : t.push <;> simp [h1, h2, h3, h4, h5, h6, h7]

/-! ## `reconcileTrial` after `reconcileJob`: observation read, requeue, condition update -/

def trialAfterJobGen (v : World) (t : TrialO) (state : JobState) (now : Nat) : Prog :=
  let js? := jsOf state (tHas t .running)
  let G (obsNil : Bool) (g : Bool → Bool → Bool → Bool → Bool → Bool → Bool → Bool → Bool → Bool) : Bool :=
    g false true (tCompleted t) (tHas t .earlyStopped) js?.isNone (js? == some .succeeded) obsNil t.push false
  let cont (st : TrialSt) : Prog :=
    if G st.obs.isNone requeueNoMetricsGuard then .done .requeueAfter
    else if G st.obs.isNone callUpdateConditionGuard then
      (match js? with | some js => trialUpdateCondition t st js now | none => trialFinish t t.st)
    else trialFinish t t.st
  if G false callObservationGuard then
    let logs := dbOf v t.key.name
    if logs.isEmpty then .step (.dbGet t.key.name) (cont t.st) (.done .err)
    else match Metrics.getMetrics logs [objMetric] with
      | some ms => .step (.dbGet t.key.name) (cont { t.st with obs := some (ms.map (fun m => { m with lastTs := none })) }) (.done .err)
      | none => .step (.dbGet t.key.name) (.done .err) (.done .err)
  else cont t.st

theorem C06_reconcile_trial_guards_known :
    callObservationGuardUnknown = [] ∧ requeueNoMetricsGuardUnknown = [] ∧ callUpdateConditionGuardUnknown = [] ∧
    callObservationGuardSites = 1 ∧ requeueNoMetricsGuardSites = 1 ∧ callUpdateConditionGuardSites = 1 := by decide

set_option linter.unusedSimpArgs false in
set_option maxHeartbeats 2000000 in
/-- **C06_reconcile_trial_is_source**: when the observation is read, when the reconcile is requeued for missing metrics and
    when the conditions are updated — the model's `trialAfterJob` is the function rebuilt from the regenerated path conditions -/
theorem C06_reconcile_trial_is_source (v : World) (t : TrialO) (state : JobState) (now : Nat) :
    trialAfterJob v t state now = trialAfterJobGen v t state now := by
  unfold trialAfterJob trialAfterJobGen trialObserve callObservationGuard requeueNoMetricsGuard callUpdateConditionGuard
  cases hjs : jsOf state (tHas t .running) with
  | none => cases hc : tCompleted t <;> cases hes : tHas t .earlyStopped <;> simp [hc, hes]
  | some js =>
    cases js <;> cases hc : tCompleted t <;> cases hes : tHas t .earlyStopped <;> cases hp : t.push <;>
      cases hl : (dbOf v t.key.name).isEmpty <;> simp [hc, hes, hp, hl] <;>
      (try (cases hm : Metrics.getMetrics (dbOf v t.key.name) [objMetric] <;> simp [hm])) <;>
      (try (cases ho : t.st.obs <;> simp [ho]))


set_option maxHeartbeats 2000000 in
/-- **C06_mark_guards_exclusive**: stated on the regenerated conditions alone — in one call of `UpdateTrialStatusCondition`, for
    every job outcome and every combination of conditions the Trial carries, at most one of the four `MarkTrialStatus…` calls
    is reached; an early-stopped Trial reaches none of Succeeded / Failed / Running, a Trial that already carries a verdict is not
    given the same one again, and Succeeded needs an available observation -/
theorem C06_mark_guards_exclusive (hasMessage hasReason u : Bool) :
    ∀ (jobSucceeded jobFailed jobRunning obsAvailable succeeded earlyStopped metricsUnavailable failed running push reportFailed : Bool),
    (markSucceededGuard jobSucceeded jobFailed jobRunning obsAvailable succeeded earlyStopped metricsUnavailable failed running push reportFailed hasMessage hasReason u).toNat + (markUnavailableGuard jobSucceeded jobFailed jobRunning obsAvailable succeeded earlyStopped metricsUnavailable failed running push reportFailed hasMessage hasReason u).toNat +
      (markFailedGuard jobSucceeded jobFailed jobRunning obsAvailable succeeded earlyStopped metricsUnavailable failed running push reportFailed hasMessage hasReason u).toNat + (markRunningGuard jobSucceeded jobFailed jobRunning obsAvailable succeeded earlyStopped metricsUnavailable failed running push reportFailed hasMessage hasReason u).toNat ≤ 1 ∧
    (earlyStopped = true →
      markSucceededGuard jobSucceeded jobFailed jobRunning obsAvailable succeeded earlyStopped metricsUnavailable failed running push reportFailed hasMessage hasReason u = false ∧
      markFailedGuard jobSucceeded jobFailed jobRunning obsAvailable succeeded earlyStopped metricsUnavailable failed running push reportFailed hasMessage hasReason u = false ∧
      markRunningGuard jobSucceeded jobFailed jobRunning obsAvailable succeeded earlyStopped metricsUnavailable failed running push reportFailed hasMessage hasReason u = false) ∧
    (markSucceededGuard jobSucceeded jobFailed jobRunning obsAvailable succeeded earlyStopped metricsUnavailable failed running push reportFailed hasMessage hasReason u = true →
      obsAvailable = true ∧ succeeded = false ∧ jobSucceeded = true) ∧
    (markFailedGuard jobSucceeded jobFailed jobRunning obsAvailable succeeded earlyStopped metricsUnavailable failed running push reportFailed hasMessage hasReason u = true →
      failed = false ∧ jobFailed = true ∧ jobSucceeded = false) ∧
    (markUnavailableGuard jobSucceeded jobFailed jobRunning obsAvailable succeeded earlyStopped metricsUnavailable failed running push reportFailed hasMessage hasReason u = true →
      metricsUnavailable = false ∧ jobSucceeded = true) := by
  unfold markSucceededGuard markUnavailableGuard markFailedGuard markRunningGuard
  intro jobSucceeded jobFailed jobRunning obsAvailable succeeded earlyStopped metricsUnavailable failed running push reportFailed
  cases jobSucceeded <;> cases jobFailed <;> cases jobRunning <;> cases obsAvailable <;> cases succeeded <;>
    cases earlyStopped <;> cases metricsUnavailable <;> cases failed <;> cases running <;> cases push <;> cases reportFailed <;>
    decide

end Katib.Gen
