import Katib.Gen.Guards
import Katib.Model.Reconcile
/-!
# The model's `UpdateTrialStatusCondition` is the source's, rebuilt from its regenerated path conditions

`Katib/Gen/Guards.lean` (regenerated on every run) holds the conditions under which `UpdateTrialStatusCondition`
(pkg/controller.v1beta1/trial/trial_controller_util.go) reaches `MarkTrialStatusSucceeded`, `…MetricsUnavailable`, `…Failed` and
`…Running`.  `trialUpdateConditionGen` puts the model's four writes behind exactly these conditions; the hand-written model
function is that function, for every Trial, status, job condition and time.
-/
namespace Katib.Gen
open Katib Katib.Ctl

def trialUpdateConditionGen (t : TrialO) (st : TrialSt) (js : JobCond) (now : Nat) : Prog :=
  let has (c : TCT) := Cond.has st.conds c
  let at_ (g : Bool → Bool → Bool → Bool → Bool → Bool → Bool → Bool → Bool → Bool → Bool → Bool → Bool → Bool → Bool) : Bool :=
    g (js == .succeeded) (js == .failed) (js == .running) (obsAvailable st) (has .succeeded) (has .earlyStopped) (has .metricsUnavailable)
      (has .failed) (has .running) t.push false false false false
  if at_ markSucceededGuard then
    trialFinish t { st with conds := tMark st.conds .succeeded rTrialSucceeded now, completion := some now }
  else if at_ markUnavailableGuard then
    let k := trialFinish t { st with conds := tMark st.conds .metricsUnavailable rTrialMU now, completion := some now }
    if t.push then .step (.dbReport t.key.name unavailableEntry) k (.done .requeueAfter) else k
  else if at_ markFailedGuard then
    trialFinish t { st with conds := tMark st.conds .failed rTrialFailed now, completion := some now }
  else if at_ markRunningGuard then
    trialFinish t { st with conds := Cond.set st.conds .running true rTrialRunning now }
  else trialFinish t st

/-- the translator met only conditions it knows and exactly one call site for each mark -/
theorem C06_mark_guards_known :
    markSucceededGuardUnknown = [] ∧ markUnavailableGuardUnknown = [] ∧ markFailedGuardUnknown = [] ∧ markRunningGuardUnknown = [] ∧
    markSucceededGuardSites = 1 ∧ markUnavailableGuardSites = 1 ∧ markFailedGuardSites = 1 ∧ markRunningGuardSites = 1 := by decide

set_option linter.unusedSimpArgs false in
/-- **C06_update_condition_is_source** -/
theorem C06_update_condition_is_source (t : TrialO) (st : TrialSt) (js : JobCond) (now : Nat) :
    trialUpdateCondition t st js now = trialUpdateConditionGen t st js now := by
  unfold trialUpdateCondition trialUpdateConditionGen markSucceededGuard markUnavailableGuard markFailedGuard markRunningGuard
  cases js <;> cases h1 : obsAvailable st <;> cases h2 : Cond.has st.conds .succeeded <;> cases h3 : Cond.has st.conds .earlyStopped <;>
    cases h4 : Cond.has st.conds .metricsUnavailable <;> cases h5 : Cond.has st.conds .failed <;>
    cases h6 : Cond.has st.conds .running <;> cases h7 : t.push <;> simp [h1, h2, h3, h4, h5, h6, h7]

end Katib.Gen
