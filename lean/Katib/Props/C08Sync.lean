import Katib.Drv.C08S
/-!
# C08S: the model of a sequence of `SyncAssignments` calls (stream C08S) satisfies C08's counting clauses

`Katib.Drv.syncRound` is the model the real `SyncAssignments` sequences are compared with (names canonicalised by first
appearance, so the list is always `n0 … n(count−1)`: append-only and duplicate-free by construction).  Here: a call changes
the count only on a correctly sized reply, and then to exactly `requests`; it never decreases; an error is reported exactly
when something was requested and the reply was not usable; over any sequence the count never exceeds the largest request.
-/
namespace Katib.Drv

theorem C08S_round (st : SyncSt) (req : Int) (kind : String) :
    let r := syncRound st req kind
    (r.1.count = st.count ∨ (kind = "ok" ∧ (r.1.count : Int) = req ∧ (st.count : Int) < req)) ∧
    st.count ≤ r.1.count ∧
    (r.2 = true ↔ ((st.count : Int) < req ∧ kind ≠ "ok")) := by
  unfold syncRound
  simp only []
  split
  · rename_i h
    exact ⟨Or.inl rfl, Nat.le_refl _, by simp; intro h'; omega⟩
  · rename_i h
    split
    · rename_i hk
      have hk' : kind = "ok" := by simpa using hk
      refine ⟨Or.inr ⟨hk', ?_, by omega⟩, by simp, by simp [hk']⟩
      have : ((req - (st.count : Int)).toNat : Int) = req - st.count := Int.toNat_of_nonneg (by omega)
      simp only [Int.natCast_add, this]
      omega
    · rename_i hk
      have hk' : kind ≠ "ok" := by simpa using hk
      exact ⟨Or.inl rfl, Nat.le_refl _, by simp [hk']; omega⟩

def runRounds (st : SyncSt) (rs : List (Int × String)) : SyncSt := rs.foldl (fun s r => (syncRound s r.1 r.2).1) st

/-- over any sequence of calls the number of assignments never exceeds the largest number ever requested -/
theorem C08S_never_more_than_requested (rs : List (Int × String)) (st : SyncSt) (b : Int)
    (h0 : (st.count : Int) ≤ b) (hb : ∀ r ∈ rs, r.1 ≤ b) : ((runRounds st rs).count : Int) ≤ b := by
  induction rs generalizing st with
  | nil => exact h0
  | cons r rs ih =>
    unfold runRounds
    simp only [List.foldl_cons]
    apply ih
    · have := (C08S_round st r.1 r.2).1
      rcases this with h | ⟨_, h, _⟩
      · rw [h]; exact h0
      · rw [h]; exact hb r List.mem_cons_self
    · exact fun x hx => hb x (List.mem_cons_of_mem _ hx)

/-- … and never decreases -/
theorem C08S_monotone (rs : List (Int × String)) (st : SyncSt) : st.count ≤ (runRounds st rs).count := by
  induction rs generalizing st with
  | nil => exact Nat.le_refl _
  | cons r rs ih =>
    unfold runRounds
    simp only [List.foldl_cons]
    exact Nat.le_trans (C08S_round st r.1 r.2).2.1 (ih _)

end Katib.Drv
