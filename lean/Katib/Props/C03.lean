import Katib.Lemmas.ExpStatus
/-!
# C03 — Experiment verdict is correct, exclusive and stable  (pure part: one status update)

Theorems about `Katib.Exp.updateCondition` / `updateStatus` (models of `UpdateExperimentStatusCondition`
and `UpdateExperimentStatus`).  Stability over reconcile sequences is in `Katib/Props/C03Ctl.lean`.
-/
namespace Katib.Exp
open Katib

/-- the verdict the property prescribes, as a function of the three rules (goal > failed > max-trials > suggestion end) -/
inductive Verdict | succeeded (reason : String) | failed | running
  deriving DecidableEq, Repr

def verdict (b : Budget) (c : Counts) (goalReached sugDone : Bool) : Verdict :=
  if goalReached then .succeeded rGoal
  else if failRule b c then .failed
  else if maxRule b c then .succeeded rMaxTrials
  else if sugDone && c.active == 0 then .succeeded rSugEnd
  else .running

/-- C03_verdict: the conditions written are exactly those of the prescribed verdict (for an experiment that had none). -/
theorem C03_verdict (b : Budget) (c : Counts) (s : Status) (goal sug : Bool) (now : Nat)
    (hnc : isCompleted s.conds = false) :
    let s' := updateCondition b c s goal sug now
    match verdict b c goal sug with
    | .succeeded r => isSucceeded s'.conds = true ∧ isFailed s'.conds = false ∧
                      Cond.reasonOf s'.conds .succeeded = some r ∧ s'.completion = some now
    | .failed => isFailed s'.conds = true ∧ isSucceeded s'.conds = false ∧
                 Cond.reasonOf s'.conds .failed = some rFailed ∧ s'.completion = some now
    | .running => isCompleted s'.conds = false ∧ Cond.has s'.conds .running = true ∧ s'.completion = s.completion := by
  have hs : isSucceeded s.conds = false := by
    unfold isCompleted at hnc; cases h : isSucceeded s.conds <;> simp_all
  have hf : isFailed s.conds = false := by
    unfold isCompleted at hnc; cases h : isFailed s.conds <;> simp_all
  unfold updateCondition verdict
  cases goal with
  | true =>
    simp only [if_true]
    obtain ⟨a, b', _, d⟩ := markSucceeded_spec s.conds rGoal now
    exact ⟨a, b'.trans hf, d, trivial⟩
  | false =>
    simp only [Bool.false_eq_true, if_false]
    cases h2 : failRule b c with
    | true =>
      simp only [if_true]
      obtain ⟨a, b', _, d⟩ := markFailed_spec s.conds rFailed now
      exact ⟨a, b'.trans hs, d, trivial⟩
    | false =>
      simp only [Bool.false_eq_true, if_false]
      cases h3 : maxRule b c with
      | true =>
        simp only [if_true]
        obtain ⟨a, b', _, d⟩ := markSucceeded_spec s.conds rMaxTrials now
        exact ⟨a, b'.trans hf, d, trivial⟩
      | false =>
        simp only [Bool.false_eq_true, if_false]
        cases h4 : (sug && c.active == 0) with
        | true =>
          simp only [if_true]
          obtain ⟨a, b', _, d⟩ := markSucceeded_spec s.conds rSugEnd now
          exact ⟨a, b'.trans hf, d, trivial⟩
        | false =>
          simp only [Bool.false_eq_true, if_false]
          obtain ⟨a, b', c'⟩ := markRunning_spec s.conds now
          refine ⟨?_, c', trivial⟩
          unfold isCompleted; rw [a, b', hs, hf]; rfl

/-- C03_exclusive: Succeeded and Failed are never both true after an update of a not-yet-completed experiment. -/
theorem C03_exclusive (b : Budget) (c : Counts) (s : Status) (goal sug : Bool) (now : Nat)
    (hnc : isCompleted s.conds = false) :
    ¬ (isSucceeded (updateCondition b c s goal sug now).conds = true ∧
       isFailed (updateCondition b c s goal sug now).conds = true) := by
  have h := C03_verdict b c s goal sug now hnc
  simp only at h
  intro ⟨h1, h2⟩
  cases hv : verdict b c goal sug with
  | succeeded r => rw [hv] at h; simp only at h; rw [h.2.1] at h2; cases h2
  | failed => rw [hv] at h; simp only at h; rw [h.2.1] at h1; cases h1
  | running =>
    rw [hv] at h; simp only at h
    unfold isCompleted at h; rw [h1] at h; simp at h

/-- C03_running_false: once a verdict exists Running is not true. -/
theorem C03_running_false (b : Budget) (c : Counts) (s : Status) (goal sug : Bool) (now : Nat)
    (hdone : isCompleted (updateCondition b c s goal sug now).conds = true)
    (hnc : isCompleted s.conds = false) :
    Cond.has (updateCondition b c s goal sug now).conds .running = false := by
  unfold updateCondition at hdone ⊢
  cases goal with
  | true => simp only [if_true]; exact (markSucceeded_spec _ _ _).2.2.1
  | false =>
    simp only [Bool.false_eq_true, if_false] at hdone ⊢
    cases h2 : failRule b c with
    | true => simp only [if_true]; exact (markFailed_spec _ _ _).2.2.1
    | false =>
      rw [h2] at hdone
      simp only [Bool.false_eq_true, if_false] at hdone ⊢
      cases h3 : maxRule b c with
      | true => simp only [if_true]; exact (markSucceeded_spec _ _ _).2.2.1
      | false =>
        rw [h3] at hdone
        simp only [Bool.false_eq_true, if_false] at hdone ⊢
        cases h4 : (sug && c.active == 0) with
        | true => simp only [if_true]; exact (markSucceeded_spec _ _ _).2.2.1
        | false =>
          rw [h4] at hdone
          simp only [Bool.false_eq_true, if_false] at hdone
          obtain ⟨a, b', _⟩ := markRunning_spec s.conds now
          unfold isCompleted at hdone hnc
          rw [a, b'] at hdone
          rw [hdone] at hnc; cases hnc

/-- C03_frozen: a status update never touches verdict, reason or completion time of a completed experiment. -/
theorem C03_frozen (o : Objective) (b : Budget) (ts : List TrialV) (s : Status) (now : Nat)
    (h : isCompleted s.conds = true) : (updateStatus o b ts s now).2 = s := by
  unfold updateStatus; simp [h]

/-- precedence, spelled out: goal beats failure beats max-trials -/
theorem C03_precedence (b : Budget) (c : Counts) (sug : Bool) :
    verdict b c true sug = .succeeded rGoal ∧
    (failRule b c = true → verdict b c false sug = .failed) ∧
    (failRule b c = false → maxRule b c = true → verdict b c false sug = .succeeded rMaxTrials) := by
  refine ⟨by simp [verdict], ?_, ?_⟩
  · intro h; simp [verdict, h]
  · intro h1 h2; simp [verdict, h1, h2]

/-- the rules are the ones the property names -/
theorem C03_rules (b : Budget) (c : Counts) :
    (failRule b c = true ↔ ∃ k, b.maxFailed = some k ∧ c.failed + c.metricsUnavailable ≠ 0 ∧ k ≤ c.failed + c.metricsUnavailable) ∧
    (maxRule b c = true ↔ ∃ m, b.maxTrials = some m ∧
        m ≤ c.succeeded + c.failed + c.killed + c.earlyStopped + c.metricsUnavailable) := by
  unfold failRule maxRule Counts.failedish Counts.completed
  constructor
  · cases b.maxFailed with
    | none => simp
    | some k => simp
  · cases b.maxTrials with
    | none => simp
    | some m => simp

/-! Non-vacuity -/
example : isCompleted ([⟨.created, true, rCreated, 0⟩, ⟨.running, true, rRunning, 0⟩] : List ECond) = false := by decide
example :
    (updateCondition ⟨some 3, some 2⟩ ⟨1, 1, 0, 0, 1, 0, 0⟩ ⟨[⟨.created, true, rCreated, 0⟩, ⟨.running, true, rRunning, 0⟩], none⟩
      false false 7).conds
    = [⟨.created, true, rCreated, 0⟩, ⟨.running, false, rRunning, 7⟩, ⟨.failed, true, rFailed, 7⟩] := by decide

end Katib.Exp
