import Katib.Props.C04Quiescent
/-!
# A Succeeded Trial holds an objective value and is not EarlyStopped — over every schedule

`C06_succeeded_has_objective`: for every list of simulator operations (no hypothesis on the schedule), every Trial of the
current store that is Succeeded has an observation in which the objective metric is available, and is neither EarlyStopped
nor Failed nor MetricsUnavailable.
The trial controller marks Succeeded only in the branch guarded by `IsObservationAvailable` and not-EarlyStopped, reached only
for a Trial without terminal condition; every other
status it writes for a Trial that is already Succeeded leaves conditions and observation alone (a Succeeded Trial that is
not EarlyStopped is not observed again); the early-stopping service only touches Trials that are not completed.
-/
namespace Katib.Ctl
open Katib Katib.Exp

def QOk (st : TrialSt) : Prop :=
  Cond.has st.conds .succeeded = true →
    obsAvailable st = true ∧ Cond.has st.conds .earlyStopped = false ∧ Cond.has st.conds .failed = false ∧
    Cond.has st.conds .metricsUnavailable = false

def QInv (w : World) : Prop := ∀ t ∈ w.trials, QOk t.st

def QJust : Call → Prop
  | .trialStatus _ _ st => QOk st
  | .trialCreate t => QOk t.st
  | _ => True

theorem qok_of_not_succeeded {st : TrialSt} (h : Cond.has st.conds .succeeded = false) : QOk st := by
  intro hs; rw [h] at hs; cases hs

theorem q_finish (t : TrialO) (st : TrialSt) (h : QOk st) : (trialFinish t st).All QJust := by
  unfold trialFinish; split
  · trivial
  · exact ⟨h, trivial, trivial⟩

theorem q_updateCondition (t : TrialO) (st : TrialSt) (js : JobCond) (now : Nat) (hst : st.conds = t.st.conds)
    (hns : Cond.has t.st.conds .succeeded = false) (hg : tCompleted t = false ∨ tHas t .earlyStopped = true) :
    (trialUpdateCondition t st js now).All QJust := by
  have keep : (trialFinish t st).All QJust := q_finish t st (qok_of_not_succeeded (by rw [hst]; exact hns))
  have mark : ∀ (ty : TCT) (r : String) (c : Option Nat), ty ≠ .succeeded →
      (trialFinish t { st with conds := tMark st.conds ty r now, completion := c }).All QJust := by
    intro ty r c hne
    apply q_finish
    apply qok_of_not_succeeded
    show Cond.has (tMark st.conds ty r now) .succeeded = false
    rw [has_tMark_other _ _ _ (fun e => hne e.symm) (by decide), hst]; exact hns
  unfold trialUpdateCondition
  simp only []
  cases js with
  | succeeded =>
    simp only []
    split
    · rename_i hc
      split
      · rename_i hes
        apply q_finish
        intro _
        simp only [Bool.and_eq_true] at hc
        have hes' : Cond.has st.conds .earlyStopped = false := by simpa using hes
        have hnc : tCompleted t = false := by
          rcases hg with h | h
          · exact h
          · unfold tHas at h; rw [← hst, hes'] at h; cases h
        obtain ⟨_, n2, _, _, n5⟩ := not_completed_has hnc
        unfold tHas at n2 n5
        refine ⟨hc.1, ?_, ?_, ?_⟩
        · show Cond.has (tMark st.conds .succeeded rTrialSucceeded now) .earlyStopped = false
          rw [has_tMark_other _ _ _ (by decide) (by decide)]; exact hes'
        · show Cond.has (tMark st.conds .succeeded rTrialSucceeded now) .failed = false
          rw [has_tMark_other _ _ _ (by decide) (by decide), hst]; exact n2
        · show Cond.has (tMark st.conds .succeeded rTrialSucceeded now) .metricsUnavailable = false
          rw [has_tMark_other _ _ _ (by decide) (by decide), hst]; exact n5
      · exact keep
    · split
      · split
        · exact ⟨trivial, mark _ _ _ (by decide), trivial⟩
        · exact mark _ _ _ (by decide)
      · exact keep
  | failed =>
    simp only []
    split
    · exact mark _ _ _ (by decide)
    · exact keep
  | running =>
    simp only []
    split
    · apply q_finish
      apply qok_of_not_succeeded
      show Cond.has (Cond.set st.conds .running true rTrialRunning now) .succeeded = false
      rw [Cond.has_set_other _ (by decide), hst]; exact hns
    · exact keep

theorem q_observe (v : World) (t : TrialO) (js : JobCond) (now : Nat) (hns : Cond.has t.st.conds .succeeded = false)
    (hg : tCompleted t = false ∨ tHas t .earlyStopped = true) : (trialObserve v t js now).All QJust := by
  have cont : ∀ st : TrialSt, st.conds = t.st.conds →
      (if (js = .succeeded && st.obs.isNone && !t.push) = true then Prog.done .requeueAfter else trialUpdateCondition t st js now).All QJust := by
    intro st hst
    split
    · trivial
    · exact q_updateCondition t st js now hst hns hg
  unfold trialObserve
  simp only []
  split
  · split
    · exact ⟨trivial, cont _ rfl, trivial⟩
    · split
      · refine ⟨trivial, ?_, trivial⟩
        exact cont { t.st with obs := some _ } rfl
      · exact ⟨trivial, trivial, trivial⟩
  · exact cont _ rfl

theorem q_afterJob (v : World) (t : TrialO) (state : JobState) (now : Nat) (hq : QOk t.st) :
    (trialAfterJob v t state now).All QJust := by
  unfold trialAfterJob
  split
  · exact q_finish t _ hq
  · rename_i hc
    have hg : tCompleted t = false ∨ tHas t .earlyStopped = true := by
      cases h1 : tCompleted t with
      | false => exact Or.inl rfl
      | true =>
        cases h2 : tHas t .earlyStopped with
        | true => exact Or.inr rfl
        | false => simp [h1, h2] at hc
    have hns : Cond.has t.st.conds .succeeded = false := by
      cases hs : Cond.has t.st.conds .succeeded with
      | false => rfl
      | true =>
        exfalso
        obtain ⟨_, hes, _⟩ := hq hs
        have hcomp : tCompleted t = true := by unfold tCompleted tHas; rw [hs]; rfl
        have : tHas t .earlyStopped = false := hes
        simp [hcomp, this] at hc
    split
    · exact q_finish t _ hq
    · exact q_observe v t _ now hns hg

theorem trialPlan_q (v : World) (k : Key2) (now : Nat) (hv : QInv v) : (trialPlan v k now).All QJust := by
  cases ht : findTrial v k with
  | none => unfold trialPlan; rw [ht]; trivial
  | some t =>
    have hq : QOk t.st := hv t (findTrial_mem ht)
    unfold trialPlan
    rw [ht]
    simp only []
    split
    · exact ⟨trivial, trivial, trivial⟩
    · split
      · exact ⟨trivial, ⟨trivial, trivial, trivial⟩, trivial⟩
      · split
        · apply q_finish
          intro hs
          simp only [Cond.has_set_other _ (show TCT.succeeded ≠ TCT.created by decide)] at hs
          obtain ⟨a, b, c, d⟩ := hq hs
          refine ⟨a, ?_, ?_, ?_⟩
          · show Cond.has (Cond.set t.st.conds .created true rTrialCreated now) .earlyStopped = false
            rw [Cond.has_set_other _ (by decide)]; exact b
          · show Cond.has (Cond.set t.st.conds .created true rTrialCreated now) .failed = false
            rw [Cond.has_set_other _ (by decide)]; exact c
          · show Cond.has (Cond.set t.st.conds .created true rTrialCreated now) .metricsUnavailable = false
            rw [Cond.has_set_other _ (by decide)]; exact d
        · split
          · split
            · exact q_finish t _ hq
            · exact ⟨trivial, q_afterJob v t .running now hq, trivial⟩
          · split
            · exact ⟨trivial, trivial, trivial⟩
            · exact q_afterJob v t _ now hq

theorem expPlan_q (v : World) (k : Key2) (now : Nat) : (expPlan v k now).All QJust := by
  cases he : findExp v k with
  | none => unfold expPlan; rw [he]; trivial
  | some e =>
    refine (expPlan_guard v k now e he).mono ?_
    intro c hc
    cases c with
    | trialCreate t' =>
      obtain ⟨_, _, _, _, h5, _⟩ := hc
      show QOk t'.st
      rw [h5]; intro h; cases h
    | trialStatus _ _ _ => exact absurd hc id
    | _ => trivial

theorem sugPlan_q (v : World) (k : Key2) (env : SugEnv) (now : Nat) : (sugPlan v k env now).All QJust := by
  cases hs : findSug v k with
  | none => unfold sugPlan; rw [hs]; trivial
  | some s =>
    refine (sugPlan_target v k env now s hs).mono ?_
    intro c hc
    cases c with
    | trialCreate _ => exact absurd hc id
    | trialStatus _ _ _ => exact absurd hc id
    | _ => trivial

theorem qinv_same {w w' : World} (e : w'.trials = w.trials) (h : QInv w) : QInv w' := by
  unfold QInv; rw [e]; exact h

theorem qinv_upd {w : World} (k : Key2) (f : TrialO → TrialO) (hf : ∀ t, QOk t.st → QOk (f t).st) (h : QInv w) :
    QInv (updTrial w k f) := by
  intro t' ht'
  unfold updTrial at ht'
  simp only [List.mem_map] at ht'
  obtain ⟨t, ht, rfl⟩ := ht'
  split
  · exact hf t (h t ht)
  · exact h t ht

theorem qinv_filter {w : World} (p : TrialO → Bool) (h : QInv w) : QInv { w with trials := w.trials.filter p } :=
  fun t ht => h t (List.mem_filter.1 ht).1

theorem apply_pres_Q {w w' : World} {c : Call} (hM : QInv w) (hJ : QJust c) (h : applyCall w c = .ok w') : QInv w' := by
  cases c with
  | trialCreate t =>
    simp only [applyCall] at h; split at h <;> cases h
    intro t' ht'
    simp only [List.mem_append, List.mem_singleton] at ht'
    rcases ht' with ht' | ht'
    · exact hM t' ht'
    · subst ht'; exact hJ
  | trialStatus k' rv st =>
    simp only [applyCall] at h; split at h
    · cases h
    · split at h <;> cases h
      exact qinv_upd _ _ (fun _ _ => hJ) hM
  | trialUpdateFin k' rv fin =>
    simp only [applyCall] at h; split at h
    · cases h
    · split at h
      · cases h
      · split at h <;> cases h
        · exact qinv_filter _ hM
        · exact qinv_upd _ _ (fun _ ht => ht) hM
  | trialDelete k' =>
    simp only [applyCall] at h; split at h
    · cases h
    · split at h <;> cases h
      · exact qinv_upd _ _ (fun _ ht => ht) hM
      · exact qinv_filter _ hM
  | expUpdateFin k' rv fin =>
    simp only [applyCall] at h; split at h
    · cases h
    · split at h <;> cases h; exact qinv_same rfl hM
  | expStatus k' rv st =>
    simp only [applyCall] at h; split at h
    · cases h
    · split at h <;> cases h; exact qinv_same rfl hM
  | sugCreate s => simp only [applyCall] at h; split at h <;> cases h; exact qinv_same rfl hM
  | sugUpdateReq k' rv req =>
    simp only [applyCall] at h; split at h
    · cases h
    · split at h <;> cases h; exact qinv_same rfl hM
  | sugStatus k' rv st =>
    simp only [applyCall] at h; split at h
    · cases h
    · split at h <;> cases h; exact qinv_same rfl hM
  | jobCreate k' => simp only [applyCall] at h; split at h <;> cases h; exact qinv_same rfl hM
  | jobDelete k' => simp only [applyCall] at h; split at h <;> cases h; exact qinv_same rfl hM
  | deployCreate k' => simp only [applyCall] at h; split at h <;> cases h; exact qinv_same rfl hM
  | deployDelete k' => simp only [applyCall] at h; split at h <;> cases h; exact qinv_same rfl hM
  | svcCreate k' =>
    simp only [applyCall, createKey] at h; split at h
    · cases h
    · cases h; exact qinv_same rfl hM
  | svcDelete k' => simp only [applyCall] at h; split at h <;> cases h; exact qinv_same rfl hM
  | pvcCreate k' =>
    simp only [applyCall, createKey] at h; split at h
    · cases h
    · cases h; exact qinv_same rfl hM
  | saCreate k' =>
    simp only [applyCall, createKey] at h; split at h
    · cases h
    · cases h; exact qinv_same rfl hM
  | roleCreate k' =>
    simp only [applyCall, createKey] at h; split at h
    · cases h
    · cases h; exact qinv_same rfl hM
  | rbCreate k' =>
    simp only [applyCall, createKey] at h; split at h
    · cases h
    · cases h; exact qinv_same rfl hM
  | rpcValidate e => simp only [applyCall] at h; cases h; exact qinv_same rfl hM
  | rpcValidateES => simp only [applyCall] at h; cases h; exact qinv_same rfl hM
  | rpcGetSuggestions e cur total ts consume ok => simp only [applyCall] at h; split at h <;> cases h; exact qinv_same rfl hM
  | rpcGetRules e ok => simp only [applyCall] at h; split at h <;> cases h; exact qinv_same rfl hM
  | dbGet t => simp only [applyCall] at h; cases h; exact qinv_same rfl hM
  | dbDelete t => simp only [applyCall] at h; cases h; exact qinv_same rfl hM
  | dbReport t e => simp only [applyCall] at h; split at h <;> cases h <;> exact qinv_same rfl hM

/-! ### whole schedules -/

def SInvQ (s : Sim) : Prop := (QInv s.cur ∧ KInv s.cur) ∧ ∀ (i : Nat) (h : World), s.hist[i]? = some h → QInv h

theorem snap_goodQ {s : Sim} (hI : SInvQ s) (i : Nat) : QInv (snapAt s i) := by
  unfold snapAt
  cases h : s.hist[i]? with
  | none => exact hI.1.1
  | some w => exact hI.2 i w h

theorem exec_K {w0 : World} (f : Faults) (p : Prog) (hK : KInv w0) : KInv (exec f p w0 0 []).w :=
  exec_preserves (I := KInv) (P := fun _ => True) f (fun _ _ _ hI _ happ => apply_pres_keys hI happ) p w0 0 []
    (Prog.all_of_forall (fun _ => trivial) p) hK

theorem kinv_same {w w' : World} (e : w'.trials = w.trials) (h : KInv w) : KInv w' := by unfold KInv; rw [e]; exact h

theorem stepWorld_keys {s : Sim} (hK : KInv s.cur) (op : Op) : KInv (stepWorld s op).1 := by
  cases op with
  | recExp k' vE vT vS f => exact exec_K f _ hK
  | recSug k' vS vE vT vD f env => exact exec_K f _ hK
  | recTrial k' vT f => exact exec_K f _ hK
  | earlyStop k' =>
    simp only [stepWorld]
    split
    · exact hK
    · split
      · exact hK
      · unfold KInv updTrial
        simp only []
        rw [map_key_upd]
        · exact hK
        · intro _; rfl
  | userDelete k' =>
    simp only [stepWorld]
    split
    · exact hK
    · split
      · exact hK
      · split
        · unfold KInv updTrial
          simp only []
          rw [map_key_upd]
          · exact hK
          · intro _; rfl
        · exact (List.Sublist.map _ List.filter_sublist).nodup hK
  | job k' ok => simp only [stepWorld]; split <;> first | exact hK | exact kinv_same rfl hK
  | metric t text key nm => simp only [stepWorld]; split <;> exact kinv_same rfl hK
  | deployReady k' => simp only [stepWorld]; split <;> first | exact hK | exact kinv_same rfl hK
  | editMax k' n => simp only [stepWorld]; split <;> first | exact hK | exact kinv_same rfl hK
  | jobGone k' =>
    simp only [stepWorld]
    split
    · exact hK
    · split <;> first | exact hK | exact kinv_same rfl hK
  | noop => exact hK

theorem exec_Q {w0 : World} (f : Faults) (p : Prog) (hp : p.All QJust) (hM : QInv w0) : QInv (exec f p w0 0 []).w :=
  exec_preserves (I := QInv) (P := QJust) f (fun _ _ _ hI hc happ => apply_pres_Q hI hc happ) p w0 0 [] hp hM

theorem stepWorld_okQ {s : Sim} (hI : SInvQ s) (op : Op) : QInv (stepWorld s op).1 := by
  have hM := hI.1.1
  have hK := hI.1.2
  cases op with
  | recExp k' vE vT vS f => exact exec_Q f _ (expPlan_q _ k' s.opIndex) hM
  | recSug k' vS vE vT vD f env => exact exec_Q f _ (sugPlan_q _ k' env s.opIndex) hM
  | recTrial k' vT f =>
    refine exec_Q f _ (trialPlan_q _ k' s.opIndex ?_) hM
    exact snap_goodQ hI vT
  | job k' ok => simp only [stepWorld]; split <;> first | exact hM | exact qinv_same rfl hM
  | metric t text key nm => simp only [stepWorld]; split <;> exact qinv_same rfl hM
  | earlyStop k' =>
    simp only [stepWorld]
    split
    · exact hM
    · split
      · exact hM
      · rename_i t0 ht0 hnc
        -- the Trial the early-stopping service touches is not completed, hence not Succeeded; keys are unique
        intro t' ht'
        unfold updTrial at ht'
        simp only [List.mem_map] at ht'
        obtain ⟨t, ht, rfl⟩ := ht'
        split
        · rename_i hkey
          have hfound := findTrial_of_mem hK ht
          rw [hkey, ht0] at hfound
          have htt : t0 = t := Option.some.inj hfound
          subst htt
          apply qok_of_not_succeeded
          show Cond.has (t0.st.conds ++ [_]) .succeeded = false
          rw [has_append_other _ _ _ (by simp)]
          have hc : tCompleted t0 = false := by
            cases h : tCompleted t0 with
            | false => rfl
            | true => simp [h] at hnc
          exact (not_completed_has hc).1
        · exact hM t ht
  | deployReady k' => simp only [stepWorld]; split <;> first | exact hM | exact qinv_same rfl hM
  | editMax k' n => simp only [stepWorld]; split <;> first | exact hM | exact qinv_same rfl hM
  | jobGone k' =>
    simp only [stepWorld]
    split
    · exact hM
    · split <;> first | exact hM | exact qinv_same rfl hM
  | userDelete k' =>
    simp only [stepWorld]
    split
    · exact hM
    · split
      · exact hM
      · split
        · exact qinv_upd _ _ (fun _ ht => ht) hM
        · exact qinv_filter _ hM
  | noop => exact hM


theorem step_invQ {s : Sim} (hI : SInvQ s) (op : Op) : SInvQ (step s op).1 := by
  have hW := stepWorld_okQ hI op
  have hK' := stepWorld_keys hI.1.2 op
  unfold step
  refine ⟨⟨hW, hK'⟩, ?_⟩
  intro i h hh
  rw [Array.getElem?_push] at hh
  by_cases hi : i = s.hist.size
  · rw [if_pos hi] at hh; cases hh; exact hW
  · rw [if_neg hi] at hh; exact hI.2 i h hh

theorem run_invQ (ops : List Op) : ∀ {s : Sim}, SInvQ s → SInvQ (run s ops) := by
  induction ops with
  | nil => intro s h; exact h
  | cons op r ih => intro s h; exact ih (step_invQ h op)

theorem init_invQ (es : List ExpInit) : SInvQ (Sim.init es) := by
  have hM : QInv (Sim.init es).cur := fun t h => by simp [Sim.init] at h
  refine ⟨⟨hM, List.nodup_nil⟩, ?_⟩
  intro i h hh
  simp only [Sim.init] at hh
  have : h = (Sim.init es).cur := by
    cases i with
    | zero => simp at hh; exact hh.symm
    | succ j => simp at hh
  rw [this]; exact hM

/-- **C06_succeeded_has_objective**: over every schedule (no hypothesis), a Succeeded Trial holds an observation in which
    the objective metric is available, and is neither EarlyStopped nor Failed nor MetricsUnavailable. -/
theorem C06_succeeded_has_objective (es : List ExpInit) (ops : List Op) :
    ∀ t ∈ (run (Sim.init es) ops).cur.trials, tHas t .succeeded = true →
      obsAvailable t.st = true ∧ tHas t .earlyStopped = false ∧ tHas t .failed = false ∧ tHas t .metricsUnavailable = false :=
  (run_invQ ops (init_invQ es)).1.1

end Katib.Ctl
