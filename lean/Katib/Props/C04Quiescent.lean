import Katib.Props.C04
import Katib.Lemmas.Cond
import Katib.Lemmas.BudgetPlans
import Katib.Lemmas.ExpStatus
import Katib.Props.C05
import Katib.Props.C01Parallel
import Katib.Props.C06Running
/-!
# C04: quiescence implies a verdict (partial)

`C04_quiescent_verdict_partial`: take any store `w` (not only a reachable one) and an Experiment with `maxTrialCount = m`.
If none of the three controllers would issue a single write when reconciling it on the live store (the Experiment, its
Suggestion, each of its Trials — the algorithm service answering), every existing run object has finished, the metrics
that were collected are in the database and parse, the algorithm Deployment (if it exists) is ready, and no Trial is
early-stopped without an objective value (the region of the known finding, `C04_wedge_counterexample`), then the
Experiment carries a Succeeded or Failed verdict.

It is *partial* with respect to the property in three ways, all visible as hypotheses: (1) reconciles read the live store
(a cache that lags for ever is not "quiescent" in the property's sense either, but the theorem does not treat finite lag);
(2) four facts about reachable stores are assumed rather than derived here — Trial keys are unique (proved for every
schedule as `KInv`), `suggestionCount = |assignments|` (proved for every schedule in `C01_total`), assignment names are unique
(the algorithm service's contract, checked by the C08 oracle), a Suggestion of an unfinished Experiment is not Succeeded,
a MetricsUnavailable Trial is not Running, and an Experiment without Trials has zero stored counters; (3) the "no hot loop"
half of the property is covered by the `C04_no_noop_*` theorems, not here.
-/
namespace Katib.Ctl
open Katib Katib.Exp

/-- no call anywhere in the decision tree is a write (`dbGet` is the only read) -/
def Prog.noWrites (p : Prog) : Prop := ∀ c ∈ p.calls, isWrite c = false

instance (p : Prog) : Decidable p.noWrites := by unfold Prog.noWrites; infer_instance

theorem nw_step {c : Call} {a b : Prog} (h : (Prog.step c a b).noWrites) : isWrite c = false ∧ a.noWrites ∧ b.noWrites :=
  ⟨h c (by simp [Prog.calls]), fun x hx => h x (by simp [Prog.calls, hx]), fun x hx => h x (by simp [Prog.calls, hx])⟩

theorem nw_trialFinish {t : TrialO} {st : TrialSt} (h : (trialFinish t st).noWrites) : st = t.st := by
  unfold trialFinish at h
  split at h
  · assumption
  · exact absurd (nw_step h).1 (by simp [isWrite])

theorem has_tMark (cs : List TCond) (ty : TCT) (r : String) (now : Nat) : Cond.has (tMark cs ty r now) ty = true := by
  unfold tMark; exact Cond.has_set_self _ _ _ _ _

theorem not_completed_has {t : TrialO} (h : tCompleted t = false) :
    tHas t .succeeded = false ∧ tHas t .failed = false ∧ tHas t .killed = false ∧ tHas t .earlyStopped = false ∧
    tHas t .metricsUnavailable = false := by
  unfold tCompleted at h
  simp only [Bool.or_eq_false_iff] at h
  exact ⟨h.1.1.1.1, h.1.1.1.2, h.1.1.2, h.1.2, h.2⟩

/-- a quiescent Trial whose job has finished and whose metrics have arrived carries a terminal condition -/
theorem trial_quiescent (w : World) (t : TrialO) (now : Nat) (ht : findTrial w t.key = some t) (hd : t.deleted = false)
    (q : (trialPlan w t.key now).noWrites)
    (envJ : ∀ j, findJob w t.key = some j → j.state ≠ .running)
    (envM : ∀ j, findJob w t.key = some j → j.state = .succeeded →
      (t.push = false → (dbOf w t.key.name).isEmpty = false) ∧
      ((dbOf w t.key.name).isEmpty = false → (Metrics.getMetrics (dbOf w t.key.name) [objMetric]).isSome = true)) :
    tCompleted t = true := by
  cases hc : tCompleted t with
  | true => rfl
  | false =>
    exfalso
    obtain ⟨h1, h2, h3, h4, h5⟩ := not_completed_has hc
    unfold trialPlan at q
    simp only [ht, hd] at q
    cases hf : t.fin with
    | false =>
      simp [hf] at q
      exact absurd (nw_step q).1 (by simp [isWrite])
    | true =>
      simp only [hf, Bool.not_false, Bool.not_true, Bool.true_and, Bool.false_and, Bool.false_eq_true, if_false] at q
      cases hcr : tHas t .created with
      | false =>
        simp only [hcr, Bool.not_false, if_true] at q
        have := congrArg (fun st => Cond.has st.conds .created) (nw_trialFinish q)
        simp only [Cond.has_set_self] at this
        unfold tHas at hcr
        rw [hcr] at this
        exact absurd this (by simp)
      | true =>
        simp only [hcr, Bool.not_true, Bool.false_eq_true, if_false, hc, Bool.false_and] at q
        cases hj : findJob w t.key with
        | none =>
          simp only [hj] at q
          exact absurd (nw_step q).1 (by simp [isWrite])
        | some j =>
          simp only [hj] at q
          have hjs := envJ j hj
          unfold trialAfterJob at q
          simp only [hc, h4, Bool.not_false, Bool.or_false, Bool.not_true, Bool.false_eq_true, if_false] at q
          have failedCase : (trialObserve w t .failed now).noWrites → False := by
            intro q
            unfold trialObserve at q
            simp only [h4, Bool.or_false, reduceCtorEq, decide_false, Bool.false_and, Bool.false_eq_true, if_false] at q
            unfold trialUpdateCondition at q
            unfold tHas at h2 h4
            simp only [h2, h4, Bool.not_false, Bool.and_self, if_true] at q
            have := congrArg (fun st => Cond.has st.conds .failed) (nw_trialFinish q)
            simp only [has_tMark, h2] at this
            exact absurd this (by simp)
          cases hst : j.state with
          | running => exact absurd hst hjs
          | failed => simp only [hst, jsOf] at q; exact failedCase q
          | both => simp only [hst, jsOf] at q; exact failedCase q
          | succeeded =>
            simp only [hst, jsOf] at q
            unfold trialObserve at q
            simp only [decide_true, Bool.true_or, if_true, Bool.true_and] at q
            have succCase : ∀ st : TrialSt, st.conds = t.st.conds → (trialUpdateCondition t st .succeeded now).noWrites → False := by
              intro st hst q
              unfold trialUpdateCondition at q
              unfold tHas at h1 h4 h5
              simp only [hst, h1, h4, h5, Bool.not_false, Bool.and_true, if_true] at q
              split at q
              · have := congrArg (fun st => Cond.has st.conds .succeeded) (nw_trialFinish q)
                simp only [has_tMark, h1] at this
                exact absurd this (by simp)
              · split at q
                · exact absurd (nw_step q).1 (by simp [isWrite])
                · have := congrArg (fun st => Cond.has st.conds .metricsUnavailable) (nw_trialFinish q)
                  simp only [has_tMark, h5] at this
                  exact absurd this (by simp)
            obtain ⟨m1, m2⟩ := envM j hj hst
            cases hem : (dbOf w t.key.name).isEmpty with
            | true =>
              simp only [hem, if_true] at q
              cases hp : t.push with
              | false => exact absurd (m1 hp) (by simp [hem])
              | true =>
                simp only [hp, Bool.not_true, Bool.and_false, Bool.false_eq_true, if_false] at q
                exact succCase t.st rfl (nw_step q).2.1
            | false =>
              simp only [hem, Bool.false_eq_true, if_false] at q
              have hsome := m2 hem
              cases hg : Metrics.getMetrics (dbOf w t.key.name) [objMetric] with
              | none => rw [hg] at hsome; exact absurd hsome (by simp)
              | some ms =>
                simp only [hg, Option.isNone_some, Bool.false_and, Bool.false_eq_true, if_false] at q
                exact succCase _ (by rfl) (nw_step q).2.1

theorem nw_createIfAbsent {p : Bool} {c : Call} {next fail : Prog} (h : (createIfAbsent p c next fail).noWrites) : next.noWrites := by
  unfold createIfAbsent at h
  split at h
  · exact h
  · exact (nw_step h).2.1

theorem nw_sugFinish {s : SugO} {st : SugSt} (h : (sugFinish s st).noWrites) : st = s.st := by
  unfold sugFinish at h
  split at h
  · assumption
  · exact absurd (nw_step h).1 (by simp [isWrite])

/-- a quiescent Suggestion whose Deployment is ready (and whose algorithm service answers) has nothing left to ask for -/
theorem sug_quiescent (w : World) (k : Key2) (now : Nat) (s : SugO) (hs : findSug w k = some s)
    (hnS : sHas s .succeeded = false) (he : (findExp w k).isSome = true)
    (q : (sugPlan w k {} now).noWrites)
    (envD : ∀ d, findDeploy w (infraKey k) = some d → d.ready = true) :
    s.requests ≤ s.st.count := by
  have hk := findSug_key hs
  unfold sugPlan at q
  simp only [hs, hnS, Bool.false_eq_true, if_false] at q
  cases hcr : sHas s .created with
  | false =>
    simp only [hcr, Bool.not_false, if_true] at q
    have := congrArg (fun st => Cond.has st.conds .created) (nw_sugFinish q)
    simp only [Cond.has_set_self] at this
    unfold sHas at hcr
    rw [hcr] at this
    exact absurd this (by simp)
  | true =>
    simp only [hcr, Bool.not_true, Bool.false_eq_true, if_false] at q
    have q1 : (sugRbac w s {} now).noWrites := by
      unfold sugReconcile at q
      simp only [] at q
      split at q
      · exact nw_createIfAbsent (nw_createIfAbsent q)
      · exact nw_createIfAbsent q
    have q2 : (sugDeploy w s {} now).noWrites := by
      unfold sugRbac at q1
      simp only [] at q1
      split at q1
      · exact nw_createIfAbsent (nw_createIfAbsent (nw_createIfAbsent q1))
      · exact q1
    unfold sugDeploy at q2
    simp only [hk] at q2
    cases hdp : findDeploy w (infraKey k) with
    | none =>
      simp only [hdp] at q2
      exact absurd (nw_step q2).1 (by simp [isWrite])
    | some d =>
      simp only [hdp, envD d hdp, Bool.not_true, Bool.false_eq_true, if_false] at q2
      unfold sugTail at q2
      rw [hk] at q2
      cases hex : findExp w k with
      | none => rw [hex] at he; exact absurd he (by simp)
      | some e =>
        simp only [hex] at q2
        split at q2
        · exact absurd (nw_step q2).1 (by simp [isWrite])
        · unfold sugSync at q2
          simp only [] at q2
          split at q2
          · omega
          · simp only [show ((({} : SugEnv).algoMode = 3) = False) from by simp, if_false] at q2
            exact absurd (nw_step q2).1 (by simp [isWrite])

theorem nw_expFinish {e : ExpO} {st : ExpSt} (h : (expFinish e st).noWrites) : st = e.st := by
  unfold expFinish at h
  split at h
  · assumption
  · exact absurd (nw_step h).1 (by simp [isWrite])

/-- pigeonhole: a duplicate-free list contained in another is not longer -/
theorem nodup_subset_length : ∀ (l l' : List String), l.Nodup → (∀ x ∈ l, x ∈ l') → l.length ≤ l'.length := by
  intro l
  induction l with
  | nil => intro l' _ _; simp
  | cons a l ih =>
    intro l' hnd hsub
    rw [List.nodup_cons] at hnd
    have ha : a ∈ l' := hsub a List.mem_cons_self
    have h1 := ih (l'.erase a) hnd.2 (fun x hx => (List.mem_erase_of_ne (fun (h : x = a) => hnd.1 (by rw [← h]; exact hx))).2 (hsub x (List.mem_cons_of_mem _ hx)))
    rw [List.length_erase_of_mem ha] at h1
    have : 0 < l'.length := List.length_pos_of_mem ha
    simp only [List.length_cons]
    omega

theorem classify_completed (t : TrialO) (hc : tCompleted t = true)
    (hmu : tHas t .metricsUnavailable = true → tHas t .running = false) :
    classify (toTrialV t) ≠ .running ∧ classify (toTrialV t) ≠ .pending := by
  unfold tCompleted at hc
  unfold classify toTrialV
  simp only []
  cases h1 : tHas t .killed <;> cases h2 : tHas t .failed <;> cases h3 : tHas t .succeeded <;> cases h4 : tHas t .earlyStopped <;>
    cases h5 : tHas t .metricsUnavailable <;> cases h6 : tHas t .running <;> simp_all

theorem counts_of_update (e : ExpO) (st : ExpSt) (ts : List TrialO) (now : Nat) :
    (expUpdateStatus e st ts now).counts =
      countsOfLists (summarise { ty := e.cfg.objType, goal := e.cfg.goal } (ts.map toTrialV)).lists := by
  unfold expUpdateStatus updateStatus
  simp only []
  split <;> rfl

theorem active_zero (e : ExpO) (st : ExpSt) (ts : List TrialO) (now : Nat)
    (hall : ∀ t ∈ ts, tCompleted t = true ∧ (tHas t .metricsUnavailable = true → tHas t .running = false)) :
    activeCount (expUpdateStatus e st ts now) = 0 := by
  unfold activeCount
  rw [counts_of_update]
  have hl := fun c => C05_lists { ty := e.cfg.objType, goal := e.cfg.goal } (ts.map toTrialV) c
  have h4 := hl .running; have h6 := hl .pending
  simp only [Lists.get] at h4 h6
  have e4 : (ts.map toTrialV).filter (fun t => classify t = .running) = [] := by
    rw [List.filter_eq_nil_iff]
    intro tv htv
    obtain ⟨t, ht, rfl⟩ := List.mem_map.1 htv
    simpa using (classify_completed t (hall t ht).1 (hall t ht).2).1
  have e6 : (ts.map toTrialV).filter (fun t => classify t = .pending) = [] := by
    rw [List.filter_eq_nil_iff]
    intro tv htv
    obtain ⟨t, ht, rfl⟩ := List.mem_map.1 htv
    simpa using (classify_completed t (hall t ht).1 (hall t ht).2).2
  simp only [cnt, countsOfLists, List.getD_cons_zero, List.getD_cons_succ, h4, h6, e4, e6, List.map_nil, List.length_nil]
  rfl

theorem conds_of_update (e : ExpO) (st : ExpSt) (ts : List TrialO) (now : Nat) (hnc : isCompleted st.conds = false) :
    (expUpdateStatus e st ts now).conds =
      (updateCondition { maxTrials := e.maxT, maxFailed := e.maxF }
        (countsOf (summarise { ty := e.cfg.objType, goal := e.cfg.goal } (ts.map toTrialV)).lists)
        { conds := st.conds, completion := st.completion }
        (summarise { ty := e.cfg.objType, goal := e.cfg.goal } (ts.map toTrialV)).goalReached false now).conds := by
  unfold expUpdateStatus updateStatus
  simp only [hnc, Bool.false_eq_true, if_false]

theorem not_completed_lt (e : ExpO) (st : ExpSt) (ts : List TrialO) (now : Nat) (m : Int) (hm : e.maxT = some m)
    (hnc : isCompleted st.conds = false) (hnc1 : isCompleted (expUpdateStatus e st ts now).conds = false) :
    completedCount (expUpdateStatus e st ts now) < m := by
  rw [conds_of_update e st ts now hnc] at hnc1
  unfold updateCondition at hnc1
  have sc : ∀ cs r, isCompleted (markSucceeded cs r now) = true := fun cs r => by
    unfold isCompleted; rw [(markSucceeded_spec cs r now).1]; rfl
  have fc : ∀ cs r, isCompleted (markFailed cs r now) = true := fun cs r => by
    unfold isCompleted; rw [(markFailed_spec cs r now).1]; simp
  split at hnc1
  · rw [sc] at hnc1; exact absurd hnc1 (by simp)
  · split at hnc1
    · rw [fc] at hnc1; exact absurd hnc1 (by simp)
    · split at hnc1
      · rw [sc] at hnc1; exact absurd hnc1 (by simp)
      · rename_i hmax
        unfold maxRule at hmax
        simp only [hm, decide_eq_true_eq] at hmax
        unfold completedCount
        rw [counts_of_update]
        unfold Counts.completed countsOf at hmax
        simp only [cnt, countsOfLists, List.getD_cons_zero, List.getD_cons_succ]
        simp only [] at hmax
        omega

theorem reconcile_progress (w : World) (e : ExpO) (st1 : ExpSt) (ts : List TrialO) (now : Nat) (m : Int)
    (hm : e.maxT = some m) (hpar : 1 ≤ e.par) (hnc : isCompleted e.st.conds = false)
    (ha : activeCount st1 = 0) (hcpl : completedCount st1 < m)
    (nw : ∀ t ∈ ts, (!obsAvailable t.st && tHas t .earlyStopped) = false)
    (hsug : ∀ s, findSug w e.key = some s → s.requests ≤ s.st.count ∧ s.st.count = (s.st.names.length : Int) ∧ s.st.names.Nodup)
    (q : (expReconcileTrials w e st1 ts now).noWrites) : False := by
  have hadd : 0 < addCount e st1 := by
    unfold addCount
    simp only [hm, ha]
    split <;> split <;> omega
  unfold expReconcileTrials at q
  simp only [ha, show ¬ (0 > e.par) from by omega, show (0 < e.par) from by omega, hadd, if_true, if_false] at q
  unfold expCreateTrials at q
  have hies : (ts.filter (fun t => !obsAvailable t.st && tHas t .earlyStopped)) = [] := by
    rw [List.filter_eq_nil_iff]
    intro t ht
    simp [nw t ht]
  simp only [hies, List.length_nil] at q
  cases hs : findSug w e.key with
  | none =>
    simp only [hs] at q
    exact absurd (nw_step q).1 (by simp [isWrite])
  | some s =>
    obtain ⟨h1, h2, h3⟩ := hsug s hs
    simp only [hs] at q
    split at q
    · have := congrArg (fun st => isCompleted st.conds) (nw_expFinish q)
      simp only [hnc] at this
      have fc : isCompleted (markFailed st1.conds rFailed now) = true := by
        unfold isCompleted; rw [(markFailed_spec st1.conds rFailed now).1]; simp
      rw [fc] at this
      exact absurd this (by simp)
    · split at q
      · exact absurd (nw_step q).1 (by simp [isWrite])
      · rename_i hreq
        simp only [ne_eq, Decidable.not_not] at hreq
        have hlen : (ts.length : Int) < (s.st.names.length : Int) := by omega
        simp only [hlen, if_true] at q
        -- some assignment has no Trial yet
        have hne : s.st.names.filter (fun n => !(ts.any (fun t => t.key.name = n))) ≠ [] := by
          intro hnil
          rw [List.filter_eq_nil_iff] at hnil
          have hsub : ∀ x ∈ s.st.names, x ∈ ts.map (·.key.name) := by
            intro x hx
            have := hnil x hx
            simp only [Bool.not_eq_true', Bool.not_eq_false, List.any_eq_true, decide_eq_true_eq] at this
            obtain ⟨t, ht, rfl⟩ := this
            exact List.mem_map.2 ⟨t, ht, rfl⟩
          have := nodup_subset_length _ _ h3 hsub
          simp only [List.length_map] at this
          omega
        cases hfl : s.st.names.filter (fun n => !(ts.any (fun t => t.key.name = n))) with
        | nil => exact hne hfl
        | cons a r =>
          rw [hfl] at q
          simp only [List.foldr_cons] at q
          exact absurd (nw_step q).1 (by simp [isWrite])

/-- a quiescent Experiment controller, all of whose Trials are completed and none of which is early-stopped without
    observation, and whose Suggestion has nothing pending, has reached a verdict -/
theorem exp_quiescent (w : World) (k : Key2) (now : Nat) (e : ExpO) (m : Int)
    (he : findExp w k = some e) (hm : e.maxT = some m) (hm1 : 1 ≤ m) (hpar : 1 ≤ e.par) (hdel : e.deleted = false)
    (q : (expPlan w k now).noWrites)
    (hall : ∀ t ∈ trialsOf w k, tCompleted t = true ∧ (tHas t .metricsUnavailable = true → tHas t .running = false))
    (nw : ∀ t ∈ trialsOf w k, (!obsAvailable t.st && tHas t .earlyStopped) = false)
    (wf0 : trialsOf w k = [] → activeCount e.st = 0 ∧ completedCount e.st = 0)
    (hsug : ∀ s, findSug w k = some s → s.requests ≤ s.st.count ∧ s.st.count = (s.st.names.length : Int) ∧ s.st.names.Nodup) :
    isCompleted e.st.conds = true := by
  cases hc : isCompleted e.st.conds with
  | true => rfl
  | false =>
    exfalso
    have hk := findExp_key he
    unfold expPlan at q
    simp only [he, hdel, hc, Bool.not_false, Bool.true_and, Bool.false_and, Bool.false_eq_true, if_false] at q
    cases hf : e.fin with
    | false =>
      simp only [hf, Bool.not_false, if_true] at q
      exact absurd (nw_step q).1 (by simp [isWrite])
    | true =>
      simp only [hf, Bool.not_true, Bool.false_eq_true, if_false] at q
      unfold expMain at q
      rw [hk] at q
      cases hcr : Cond.has e.st.conds .created with
      | false =>
        simp only [hcr, Bool.not_false, if_true] at q
        have := congrArg (fun st => Cond.has st.conds .created) (nw_expFinish q)
        simp only [Cond.has_set_self, hcr] at this
        exact absurd this (by simp)
      | true =>
        simp only [hcr, Bool.not_true, Bool.false_eq_true, if_false] at q
        have hsug' : ∀ s, findSug w e.key = some s → s.requests ≤ s.st.count ∧ s.st.count = (s.st.names.length : Int) ∧ s.st.names.Nodup := by
          rw [hk]; exact hsug
        cases hem : (trialsOf w k).isEmpty with
        | true =>
          simp only [hem, if_true, hc, Bool.not_false] at q
          have hnil : trialsOf w k = [] := by simpa using hem
          obtain ⟨a0, c0⟩ := wf0 hnil
          exact reconcile_progress w e e.st _ now m hm hpar hc a0 (by omega) nw hsug' q
        | false =>
          simp only [hem, Bool.false_eq_true, if_false] at q
          cases hc1 : isCompleted (expUpdateStatus e e.st (trialsOf w k) now).conds with
          | true =>
            simp only [hc1, Bool.not_true, Bool.false_eq_true, if_false] at q
            have := congrArg (fun st => isCompleted st.conds) (nw_expFinish q)
            simp only [hc, hc1] at this
            exact absurd this (by simp)
          | false =>
            simp only [hc1, Bool.not_false, if_true] at q
            exact reconcile_progress w e _ _ now m hm hpar hc (active_zero e e.st _ now hall)
              (not_completed_lt e e.st _ now m hm hc hc1) nw hsug' q

/-- **C04_quiescent_verdict_partial** (see the header for what is assumed) -/
theorem C04_quiescent_verdict_partial (w : World) (k : Key2) (now : Nat) (e : ExpO) (m : Int)
    (he : findExp w k = some e) (hm : e.maxT = some m) (hm1 : 1 ≤ m) (hpar : 1 ≤ e.par) (hdel : e.deleted = false)
    -- quiescence: no controller has a write to issue
    (qE : (expPlan w k now).noWrites) (qS : (sugPlan w k {} now).noWrites)
    (qT : ∀ t ∈ trialsOf w k, (trialPlan w t.key now).noWrites)
    -- the environment has settled
    (envJ : ∀ t ∈ trialsOf w k, ∀ j, findJob w t.key = some j → j.state ≠ .running)
    (envM : ∀ t ∈ trialsOf w k, ∀ j, findJob w t.key = some j → j.state = .succeeded →
      (t.push = false → (dbOf w t.key.name).isEmpty = false) ∧
      ((dbOf w t.key.name).isEmpty = false → (Metrics.getMetrics (dbOf w t.key.name) [objMetric]).isSome = true))
    (envD : ∀ d, findDeploy w (infraKey k) = some d → d.ready = true)
    -- outside the known finding
    (nw : ∀ t ∈ trialsOf w k, (!obsAvailable t.st && tHas t .earlyStopped) = false)
    -- facts about reachable stores (assumed here)
    (hK : KInv w)
    (wfT : ∀ t ∈ trialsOf w k, t.deleted = false ∧ (tHas t .metricsUnavailable = true → tHas t .running = false))
    (wfS : ∀ s, findSug w k = some s → sHas s .succeeded = false ∧ s.st.count = (s.st.names.length : Int) ∧ s.st.names.Nodup)
    (wf0 : trialsOf w k = [] → activeCount e.st = 0 ∧ completedCount e.st = 0) :
    isCompleted e.st.conds = true := by
  refine exp_quiescent w k now e m he hm hm1 hpar hdel qE ?_ nw wf0 ?_
  · intro t ht
    have hmem := (mem_trialsOf.1 ht).1
    exact ⟨trial_quiescent w t now (findTrial_of_mem hK hmem) (wfT t ht).1 (qT t ht) (envJ t ht) (envM t ht), (wfT t ht).2⟩
  · intro s hs
    obtain ⟨a, b, c⟩ := wfS s hs
    exact ⟨sug_quiescent w k now s hs a (by rw [he]; rfl) qS envD, b, c⟩

/-! Non-vacuity: a finished one-trial experiment meets every hypothesis of `C04_quiescent_verdict_partial`
    (and `wedgeWorld` of `C04_wedge_counterexample` meets all of them except `nw`). -/
def doneTrial : TrialO :=
  { key := ⟨"ns", "exp-t1"⟩, exp := "exp", fin := true, retain := true, push := false, objType := .maximize,
    st := { conds := [⟨.created, true, rTrialCreated, 1⟩, ⟨.running, false, rTrialRunning, 3⟩, ⟨.succeeded, true, rTrialSucceeded, 3⟩],
            completion := some 3, started := true,
            obs := (Metrics.getMetrics [{ metric := "acc", text := "0.7", key := some 7, ts := some 2 }] ["acc"]).map
                     (fun ms => ms.map (fun m => { m with lastTs := none })) } }
def doneSug : SugO :=
  { key := ⟨"ns", "exp"⟩, requests := 1, resume := .longRunning, es := false,
    st := { conds := [⟨.created, true, rSugCreated, 1⟩, ⟨.deploymentReady, true, rSugDeployReady, 2⟩, ⟨.running, true, rSugRunning, 2⟩],
            names := ["exp-t1"], count := 1, started := true } }
def doneJob : JobO := { key := ⟨"ns", "exp-t1"⟩, state := .succeeded }
def doneDeploy : DeployO := { key := ⟨"ns", "exp-random"⟩, ready := true }
def doneWorld : World :=
  { exps := [{ key := ⟨"ns", "exp"⟩, fin := true, par := 1, maxT := some 1, maxF := none,
               cfg := { goal := none, objType := .maximize, resume := .longRunning, es := false, retain := true, push := false, labels := false },
               st := { conds := [⟨.created, true, rCreated, 1⟩, ⟨.running, false, rRunning, 4⟩, ⟨.succeeded, true, rMaxTrials, 4⟩], started := true,
                       completion := some 4, lists := { succeeded := ["exp-t1"] }, trials := 1, counts := [0, 0, 1, 0, 0, 0, 0] } }],
    trials := [doneTrial], sugs := [doneSug], jobs := [doneJob], deploys := [doneDeploy],
    svcs := [⟨"ns", "exp-random"⟩],
    db := [("exp-t1", [{ metric := "acc", text := "0.7", key := some 7, ts := some 2 }])], algoN := 1 }

example :
    let w := doneWorld
    let k : Key2 := ⟨"ns", "exp"⟩
    (∃ e, findExp w k = some e ∧ e.maxT = some 1 ∧ 1 ≤ e.par ∧ e.deleted = false ∧
      (trialsOf w k = [] → activeCount e.st = 0 ∧ completedCount e.st = 0)) ∧
    (expPlan w k 9).noWrites ∧ (sugPlan w k {} 9).noWrites ∧
    (∀ t ∈ trialsOf w k, (trialPlan w t.key 9).noWrites) ∧
    (∀ t ∈ trialsOf w k, ∀ j, findJob w t.key = some j → j.state ≠ .running) ∧
    (∀ t ∈ trialsOf w k, (dbOf w t.key.name).isEmpty = false ∧ (Metrics.getMetrics (dbOf w t.key.name) [objMetric]).isSome = true) ∧
    (∀ d, findDeploy w (infraKey k) = some d → d.ready = true) ∧
    (∀ t ∈ trialsOf w k, (!obsAvailable t.st && tHas t .earlyStopped) = false) ∧
    KInv w ∧
    (∀ t ∈ trialsOf w k, t.deleted = false ∧ (tHas t .metricsUnavailable = true → tHas t .running = false)) ∧
    (∀ s, findSug w k = some s → sHas s .succeeded = false ∧ s.st.count = (s.st.names.length : Int) ∧ s.st.names.Nodup) := by
  have hts : trialsOf doneWorld ⟨"ns", "exp"⟩ = [doneTrial] := by decide
  have hj : findJob doneWorld doneTrial.key = some doneJob := by decide
  have hd : findDeploy doneWorld (infraKey ⟨"ns", "exp"⟩) = some doneDeploy := by decide
  have hs : findSug doneWorld ⟨"ns", "exp"⟩ = some doneSug := by decide
  simp only [hts, List.mem_singleton, forall_eq, hj, hd, hs, Option.some.injEq]
  refine ⟨⟨_, rfl, rfl, by decide, rfl, by decide⟩, by decide, by decide, by decide, ?_, by decide, ?_, by decide, by unfold KInv; decide, by decide, ?_⟩
  · intro j hj; subst hj; decide
  · intro d hd; subst hd; rfl
  · intro s hs; subst hs; decide
end Katib.Ctl

namespace Katib.Ctl
open Katib Katib.Exp

/-- **C04_quiescent_verdict_on_schedules**: the same statement about the stores that the simulator reaches.  For every
    list of operations (reconciles of the three controllers in any order, every typed kind read from an arbitrary earlier
    snapshot, any fault mask and abort point, any environment events) in which the experiment's `maxTrialCount` is not edited
    and nobody deletes Trials, the store `w` reached at the end satisfies, *by the invariants proved for every schedule*
    (`C01_total`'s `WInv`, `C06_permanent`'s `TInv`, `C06_unavailable_not_running`), five of the assumed facts: Trial keys
    are unique, `suggestionCount` equals the number of assignments, no Trial is under deletion, a MetricsUnavailable Trial is
    not Running, and the Experiment's `maxTrialCount` is the initial one.  What remains assumed is listed: unique assignment
    names (the algorithm service's contract), the Suggestion of an unfinished Experiment is not Succeeded (false under
    arbitrarily lagging views, true for monotone caches), zero counters without Trials. -/
theorem C04_quiescent_verdict_on_schedules (k : Key2) (m : Int) (hm1 : 1 ≤ m) (es : List ExpInit) (ops : List Op)
    (hinit : ∀ e ∈ es, e.key = k → e.maxT = some m)
    (hops : ∀ op ∈ ops, ∀ n, op ≠ .editMax k n) (hopd : ∀ op ∈ ops, ∀ k', op ≠ .userDelete k')
    (now : Nat) (e : ExpO) :
    let w := (run (Sim.init es) ops).cur
    findExp w k = some e → 1 ≤ e.par → e.deleted = false →
    (expPlan w k now).noWrites → (sugPlan w k {} now).noWrites → (∀ t ∈ trialsOf w k, (trialPlan w t.key now).noWrites) →
    (∀ t ∈ trialsOf w k, ∀ j, findJob w t.key = some j → j.state ≠ .running) →
    (∀ t ∈ trialsOf w k, ∀ j, findJob w t.key = some j → j.state = .succeeded →
      (t.push = false → (dbOf w t.key.name).isEmpty = false) ∧
      ((dbOf w t.key.name).isEmpty = false → (Metrics.getMetrics (dbOf w t.key.name) [objMetric]).isSome = true)) →
    (∀ d, findDeploy w (infraKey k) = some d → d.ready = true) →
    (∀ t ∈ trialsOf w k, (!obsAvailable t.st && tHas t .earlyStopped) = false) →
    (∀ s, findSug w k = some s → sHas s .succeeded = false ∧ s.st.names.Nodup) →
    (trialsOf w k = [] → activeCount e.st = 0 ∧ completedCount e.st = 0) →
    isCompleted e.st.conds = true := by
  intro w he hpar hdel qE qS qT envJ envM envD nw wfS wf0
  have wfMU := C06_unavailable_not_running es ops
  have hm0 : 0 ≤ m := by omega
  have hI : SInv k m (run (Sim.init es) ops) := run_inv hm0 ops (init_inv k m es hinit) hops
  have hT : SInvT (run (Sim.init es) ops) := run_invT ops (init_invT es) hopd
  obtain ⟨hW, p, hX⟩ := hI.1
  have hmax : e.maxT = some m := (hX e he).1
  refine C04_quiescent_verdict_partial w k now e m he hmax hm1 hpar hdel qE qS qT envJ envM envD nw hW.tkeys ?_ ?_ wf0
  · intro t ht
    exact ⟨(hT.1.1 t (mem_trialsOf.1 ht).1).1, wfMU t (mem_trialsOf.1 ht).1⟩
  · intro s hs
    obtain ⟨a, b⟩ := wfS s hs
    exact ⟨a, (hW.sug s hs).2.2, b⟩

end Katib.Ctl
