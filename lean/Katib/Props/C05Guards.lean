import Katib.Gen.Guards
import Katib.Model.ExpStatus
/-!
# C05: the model's classification of a Trial is the source's chain of tests

`Katib/Gen/Guards.lean` (regenerated on every run by `kvh extract guards`) holds, for each of the seven lists of
`updateTrialsSummary` (pkg/controller.v1beta1/experiment/util/status_util.go), the condition under which one iteration of its
loop appends the Trial to that list.  The model's `classify` puts a Trial into a class exactly when the corresponding condition
holds, and the seven conditions are exhaustive and mutually exclusive.
-/
namespace Katib.Gen
open Katib Katib.Exp

theorem C05_classification_guards_known :
    listKilledGuardUnknown = [] ∧ listFailedGuardUnknown = [] ∧ listSucceededGuardUnknown = [] ∧ listEarlyStoppedGuardUnknown = [] ∧
    listRunningGuardUnknown = [] ∧ listMetricsUnavailableGuardUnknown = [] ∧ listPendingGuardUnknown = [] ∧
    listKilledGuardSites = 1 ∧ listFailedGuardSites = 1 ∧ listSucceededGuardSites = 1 ∧ listEarlyStoppedGuardSites = 1 ∧
    listRunningGuardSites = 1 ∧ listMetricsUnavailableGuardSites = 1 ∧ listPendingGuardSites = 1 := by decide

def clsG (t : TrialV) (g : Bool → Bool → Bool → Bool → Bool → Bool → Bool → Bool → Bool) : Bool :=
  g t.killed t.failed t.succeeded t.earlyStopped t.running t.metricsUnavailable false false

/-- **C05_classify_is_source** -/
theorem C05_classify_is_source (t : TrialV) :
    (classify t = .killed ↔ clsG t listKilledGuard = true) ∧
    (classify t = .failed ↔ clsG t listFailedGuard = true) ∧
    (classify t = .succeeded ↔ clsG t listSucceededGuard = true) ∧
    (classify t = .earlyStopped ↔ clsG t listEarlyStoppedGuard = true) ∧
    (classify t = .running ↔ clsG t listRunningGuard = true) ∧
    (classify t = .metricsUnavailable ↔ clsG t listMetricsUnavailableGuard = true) ∧
    (classify t = .pending ↔ clsG t listPendingGuard = true) := by
  unfold classify clsG listKilledGuard listFailedGuard listSucceededGuard listEarlyStoppedGuard listRunningGuard
    listMetricsUnavailableGuard listPendingGuard
  cases t.killed <;> cases t.failed <;> cases t.succeeded <;> cases t.earlyStopped <;> cases t.running <;>
    cases t.metricsUnavailable <;> simp

/-- **C05_guards_partition**: stated on the regenerated conditions alone — whatever combination of conditions a Trial carries
    (all 64), exactly one of the seven appends of the status loop is reached for it: the seven lists partition the Trials -/
theorem C05_guards_partition (killed failed succeeded earlyStopped running metricsUnavailable : Bool) :
    ([listKilledGuard, listFailedGuard, listSucceededGuard, listEarlyStoppedGuard, listRunningGuard,
      listMetricsUnavailableGuard, listPendingGuard].filter
        (fun g => g killed failed succeeded earlyStopped running metricsUnavailable false false)).length = 1 := by
  unfold listKilledGuard listFailedGuard listSucceededGuard listEarlyStoppedGuard listRunningGuard
    listMetricsUnavailableGuard listPendingGuard
  cases killed <;> cases failed <;> cases succeeded <;> cases earlyStopped <;> cases running <;>
    cases metricsUnavailable <;> decide

/-- for every list of Trials, the number of Trials whose class is `c` is the number of Trials for which the regenerated guard of
    `c`'s list holds (the loop appends in order, so each list is the corresponding sublist) -/
theorem C05_class_sublists_are_source (ts : List TrialV) :
    ts.filter (fun t => classify t = .killed) = ts.filter (fun t => clsG t listKilledGuard) ∧
    ts.filter (fun t => classify t = .failed) = ts.filter (fun t => clsG t listFailedGuard) ∧
    ts.filter (fun t => classify t = .succeeded) = ts.filter (fun t => clsG t listSucceededGuard) ∧
    ts.filter (fun t => classify t = .earlyStopped) = ts.filter (fun t => clsG t listEarlyStoppedGuard) ∧
    ts.filter (fun t => classify t = .running) = ts.filter (fun t => clsG t listRunningGuard) ∧
    ts.filter (fun t => classify t = .metricsUnavailable) = ts.filter (fun t => clsG t listMetricsUnavailableGuard) ∧
    ts.filter (fun t => classify t = .pending) = ts.filter (fun t => clsG t listPendingGuard) := by
  refine ⟨?_, ?_, ?_, ?_, ?_, ?_, ?_⟩ <;>
    (apply List.filter_congr; intro t _
     have h := C05_classify_is_source t
     rw [Bool.eq_iff_iff]; simp only [decide_eq_true_eq])
  · exact h.1
  · exact h.2.1
  · exact h.2.2.1
  · exact h.2.2.2.1
  · exact h.2.2.2.2.1
  · exact h.2.2.2.2.2.1
  · exact h.2.2.2.2.2.2

end Katib.Gen
