import Katib.Gen.Guards
import Katib.Model.ExpStatus
/-!
# C05: the model's classification of a Trial is the source's chain of tests

`Katib/Gen/Guards.lean` (regenerated on every run by `kvh extract guards`) holds, for each of the seven lists of
`updateTrialsSummary` (pkg/controller.v1beta1/experiment/util/status_util.go), the condition under which one iteration of its
loop appends the Trial to that list.  The model's `classify` puts a Trial into a class exactly when the corresponding condition
holds, and the seven conditions are exhaustive and mutually exclusive.
-/
namespace Katib.Gen
open Katib Katib.Exp

theorem C05_classification_guards_known :
    listKilledGuardUnknown = [] ∧ listFailedGuardUnknown = [] ∧ listSucceededGuardUnknown = [] ∧ listEarlyStoppedGuardUnknown = [] ∧
    listRunningGuardUnknown = [] ∧ listMetricsUnavailableGuardUnknown = [] ∧ listPendingGuardUnknown = [] ∧
    listKilledGuardSites = 1 ∧ listFailedGuardSites = 1 ∧ listSucceededGuardSites = 1 ∧ listEarlyStoppedGuardSites = 1 ∧
    listRunningGuardSites = 1 ∧ listMetricsUnavailableGuardSites = 1 ∧ listPendingGuardSites = 1 := by decide

def clsG (t : TrialV) (g : Bool → Bool → Bool → Bool → Bool → Bool → Bool → Bool → Bool) : Bool :=
  g t.killed t.failed t.succeeded t.earlyStopped t.running t.metricsUnavailable false false

/-- **C05_classify_is_source** -/
theorem C05_classify_is_source (t : TrialV) :
    (classify t = .killed ↔ clsG t listKilledGuard = true) ∧
    (classify t = .failed ↔ clsG t listFailedGuard = true) ∧
    (classify t = .succeeded ↔ clsG t listSucceededGuard = true) ∧
    (classify t = .earlyStopped ↔ clsG t listEarlyStoppedGuard = true) ∧
    (classify t = .running ↔ clsG t listRunningGuard = true) ∧
    (classify t = .metricsUnavailable ↔ clsG t listMetricsUnavailableGuard = true) ∧
    (classify t = .pending ↔ clsG t listPendingGuard = true) := by
  unfold classify clsG listKilledGuard listFailedGuard listSucceededGuard listEarlyStoppedGuard listRunningGuard
    listMetricsUnavailableGuard listPendingGuard
  cases t.killed <;> cases t.failed <;> cases t.succeeded <;> cases t.earlyStopped <;> cases t.running <;>
    cases t.metricsUnavailable <;> simp

end Katib.Gen
