import Katib.Gen.Guards
import Katib.Model.Reconcile
/-!
# The model's `SyncAssignments` is the source's, rebuilt from regenerated path conditions

`Katib/Gen/Guards.lean` (regenerated on every run by `kvh extract guards`) holds the conditions under which `SyncAssignments`
(suggestionclient.go) reaches the `GetSuggestions` call, the `GetEarlyStoppingRules` call and the statement that appends the
new assignments; `err != nil` after the four calls that can fail are numbered atoms.  `sugSyncGen` puts the model's RPC
steps and its one appending status behind exactly these conditions (the failure of an RPC is the failure branch of its step).
-/
namespace Katib.Gen
open Katib Katib.Ctl

def sugSyncGen (v : World) (s : SugO) (st : SugSt) (ts : List TrialO) (env : SugEnv) : Prog :=
  let cur := s.requests - st.count
  let k := replyCount env cur
  let G (wrongSize : Bool) (g : Bool → Bool → Bool → Bool → Bool → Bool → Bool → Bool → Bool → Bool) : Bool :=
    g (decide (cur ≤ 0)) false false wrongSize s.es false false false false
  let append : Prog := if G (decide ((k : Int) ≠ cur)) appendAssignmentsGuard then sugFinish s (sugAppend v s st k) else sugErr s st
  if !G false callGetSuggestionsGuard then sugFinish s st
  else if env.algoMode = 3 then
    .step (.rpcGetSuggestions s.key.name cur s.requests (sentTrials ts) 0 false) (sugErr s st) (sugErr s st)
  else
    .step (.rpcGetSuggestions s.key.name cur s.requests (sentTrials ts) k true)
      (if G (decide ((k : Int) ≠ cur)) callGetRulesGuard then .step (.rpcGetRules s.key.name (env.esMode = 0)) append (sugErr s st)
       else append)
      (sugErr s st)

theorem C08_sync_guards_known :
    callGetSuggestionsGuardUnknown = [] ∧ callGetRulesGuardUnknown = [] ∧ appendAssignmentsGuardUnknown = [] ∧
    callGetSuggestionsGuardSites = 1 ∧ callGetRulesGuardSites = 1 ∧ appendAssignmentsGuardSites = 1 := by decide

set_option linter.unusedSimpArgs false in
/-- **C08_sync_is_source** -/
theorem C08_sync_is_source (v : World) (s : SugO) (st : SugSt) (ts : List TrialO) (env : SugEnv) :
    sugSync v s st ts env = sugSyncGen v s st ts env := by
  unfold sugSync sugSyncGen sugAfterReply callGetSuggestionsGuard callGetRulesGuard appendAssignmentsGuard
  by_cases h1 : s.requests - st.count ≤ 0 <;> by_cases h2 : env.algoMode = 3 <;>
    by_cases h3 : ((replyCount env (s.requests - st.count) : Nat) : Int) ≠ s.requests - st.count <;> cases h4 : s.es <;>
    simp [h1, h2, h3, h4]

/-! ## `ReconcileSuggestion`: volume, RBAC, readiness, validation, sync -/

/-- the generated guards at a reconcile in which no call fails -/
def rsG (fromVolume esSet generatedAccount deployReady running : Bool)
    (g : Bool → Bool → Bool → Bool → Bool → Bool → Bool → Bool → Bool → Bool → Bool → Bool → Bool → Bool → Bool → Bool → Bool → Bool → Bool → Bool → Bool) : Bool :=
  g fromVolume esSet generatedAccount deployReady running false false false false false false false false false false false false false false false

def sugTailGen (v : World) (s : SugO) (st1 : SugSt) (env : SugEnv) (now : Nat) : Prog :=
  match findExp v s.key with
  | none => sugErr s st1
  | some _ =>
    let ts := trialsOf v s.key
    let G := rsG (s.resume == .fromVolume) s.es true true (Cond.has st1.conds .running)
    let running : SugSt := if G markSugRunningGuard then { st1 with conds := sugMarkRunning st1.conds true rSugRunning now } else st1
    let failed := sugFinish s { st1 with conds := sugMarkFailed st1.conds rSugFailed now }
    let sync : Prog := if G callSyncGuard then sugSync v s running ts env else sugFinish s running
    let afterValidate : Prog := if G callValidateESGuard then .step .rpcValidateES sync failed else sync
    if G callValidateGuard then .step (.rpcValidate s.key.name) afterValidate failed else afterValidate

theorem C16_reconcile_suggestion_guards_known :
    callReconcileVolumeGuardUnknown = [] ∧ callReconcileRBACGuardUnknown = [] ∧ markDeployNotReadyGuardUnknown = [] ∧
    callValidateGuardUnknown = [] ∧ callValidateESGuardUnknown = [] ∧ markSugRunningGuardUnknown = [] ∧ callSyncGuardUnknown = [] ∧
    callReconcileVolumeGuardSites = 1 ∧ callReconcileRBACGuardSites = 1 ∧ markDeployNotReadyGuardSites = 1 ∧
    callValidateGuardSites = 1 ∧ callValidateESGuardSites = 1 ∧ markSugRunningGuardSites = 1 ∧ callSyncGuardSites = 1 := by decide

set_option linter.unusedSimpArgs false in
/-- **C16_reconcile_suggestion_is_source**: once the Deployment is ready — validation only for a Suggestion that is not Running,
    the early-stopping validation only with early stopping, Running marked after both, then the sync -/
theorem C16_reconcile_suggestion_is_source (v : World) (s : SugO) (st1 : SugSt) (env : SugEnv) (now : Nat) :
    sugTail v s st1 env now = sugTailGen v s st1 env now := by
  unfold sugTail sugTailGen rsG callValidateGuard callValidateESGuard markSugRunningGuard callSyncGuard
  cases hfe : findExp v s.key with
  | none => rfl
  | some e =>
    cases hr : Cond.has st1.conds .running <;> cases hes : s.es <;> cases hres : s.resume <;> simp [hr, hes, hres]

/-- the volume is reconciled exactly under FromVolume, the RBAC objects exactly with early stopping (and the generated account),
    and a Deployment that is not ready ends the reconcile with DeploymentReady = False — the tests of the model's
    `sugReconcile` / `sugRbac` / `sugDeploy` -/
theorem C17_volume_rbac_readiness_guards_are_source (fv es ga dr rn : Bool) :
    rsG fv es ga dr rn callReconcileVolumeGuard = fv ∧
    rsG fv es ga dr rn callReconcileRBACGuard = (es && ga) ∧
    rsG fv es ga dr rn markDeployNotReadyGuard = !dr := by
  cases fv <;> cases es <;> cases ga <;> cases dr <;> exact ⟨rfl, rfl, rfl⟩


/-! ## the suggestion controller's `Reconcile` -/

def sugPlanGen (v : World) (k : Key2) (env : SugEnv) (now : Nat) : Prog :=
  match findSug v k with
  | none => .done .ok
  | some s =>
    let dk := infraKey k
    let G (g : Bool → Bool → Bool → Bool → Bool → Bool → Bool → Bool → Bool → Bool) : Bool :=
      g false false false false false (sHas s .succeeded) (sHas s .created) false false
    -- `deleteDeployment` / `deleteService` issue the delete only for an object that exists
    let delSvc : Prog :=
      if G callDeleteServiceGuard && v.svcs.contains dk then .step (.svcDelete dk) (.done .ok) (.done .err) else .done .ok
    if G callDeleteDeploymentGuard then
      if (findDeploy v dk).isSome then .step (.deployDelete dk) delSvc (.done .err) else delSvc
    else if G markSugCreatedGuard then
      sugFinish s { s.st with started := true, conds := Cond.set s.st.conds .created true rSugCreated now }
    else if G callReconcileSuggestionGuard then sugReconcile v s env now
    else .done .ok

theorem C16_suggestion_reconcile_guards_known :
    callDeleteDeploymentGuardUnknown = [] ∧ callDeleteServiceGuardUnknown = [] ∧ markSugCreatedGuardUnknown = [] ∧
    callReconcileSuggestionGuardUnknown = [] ∧ callDeleteDeploymentGuardSites = 1 ∧ callDeleteServiceGuardSites = 1 ∧
    markSugCreatedGuardSites = 1 ∧ callReconcileSuggestionGuardSites = 1 := by decide

set_option linter.unusedSimpArgs false in
/-- **C16_suggestion_controller_is_source**: a Succeeded Suggestion only loses its Deployment and Service; otherwise Created is
    marked first and `ReconcileSuggestion` runs for a Created one -/
theorem C16_suggestion_controller_is_source (v : World) (k : Key2) (env : SugEnv) (now : Nat) :
    sugPlan v k env now = sugPlanGen v k env now := by
  unfold sugPlan sugPlanGen callDeleteDeploymentGuard callDeleteServiceGuard markSugCreatedGuard callReconcileSuggestionGuard
  cases hs : findSug v k with
  | none => rfl
  | some s =>
    cases h1 : sHas s .succeeded <;> cases h2 : sHas s .created <;> cases h3 : (findDeploy v (infraKey k)).isSome <;>
      cases h4 : v.svcs.contains (infraKey k) <;> simp [h1, h2, h3, h4]


end Katib.Gen
