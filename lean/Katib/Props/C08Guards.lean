import Katib.Gen.Guards
import Katib.Model.Reconcile
/-!
# The model's `SyncAssignments` is the source's, rebuilt from regenerated path conditions

`Katib/Gen/Guards.lean` (regenerated on every run by `kvh extract guards`) holds the conditions under which `SyncAssignments`
(suggestionclient.go) reaches the `GetSuggestions` call, the `GetEarlyStoppingRules` call and the statement that appends the
new assignments; `err != nil` after the four calls that can fail are numbered atoms.  `sugSyncGen` puts the model's RPC
steps and its one appending status behind exactly these conditions (the failure of an RPC is the failure branch of its step).
-/
namespace Katib.Gen
open Katib Katib.Ctl

def sugSyncGen (v : World) (s : SugO) (st : SugSt) (ts : List TrialO) (env : SugEnv) : Prog :=
  let cur := s.requests - st.count
  let k := replyCount env cur
  let G (wrongSize : Bool) (g : Bool → Bool → Bool → Bool → Bool → Bool → Bool → Bool → Bool → Bool) : Bool :=
    g (decide (cur ≤ 0)) false false wrongSize s.es false false false false
  let append : Prog := if G (decide ((k : Int) ≠ cur)) appendAssignmentsGuard then sugFinish s (sugAppend v s st k) else sugErr s st
  if !G false callGetSuggestionsGuard then sugFinish s st
  else if env.algoMode = 3 then
    .step (.rpcGetSuggestions s.key.name cur s.requests (sentTrials ts) 0 false) (sugErr s st) (sugErr s st)
  else
    .step (.rpcGetSuggestions s.key.name cur s.requests (sentTrials ts) k true)
      (if G (decide ((k : Int) ≠ cur)) callGetRulesGuard then .step (.rpcGetRules s.key.name (env.esMode = 0)) append (sugErr s st)
       else append)
      (sugErr s st)

theorem C08_sync_guards_known :
    callGetSuggestionsGuardUnknown = [] ∧ callGetRulesGuardUnknown = [] ∧ appendAssignmentsGuardUnknown = [] ∧
    callGetSuggestionsGuardSites = 1 ∧ callGetRulesGuardSites = 1 ∧ appendAssignmentsGuardSites = 1 := by decide

set_option linter.unusedSimpArgs false in
/-- **C08_sync_is_source** -/
theorem C08_sync_is_source (v : World) (s : SugO) (st : SugSt) (ts : List TrialO) (env : SugEnv) :
    sugSync v s st ts env = sugSyncGen v s st ts env := by
  unfold sugSync sugSyncGen sugAfterReply callGetSuggestionsGuard callGetRulesGuard appendAssignmentsGuard
  by_cases h1 : s.requests - st.count ≤ 0 <;> by_cases h2 : env.algoMode = 3 <;>
    by_cases h3 : ((replyCount env (s.requests - st.count) : Nat) : Int) ≠ s.requests - st.count <;> cases h4 : s.es <;>
    simp [h1, h2, h3, h4]

end Katib.Gen
