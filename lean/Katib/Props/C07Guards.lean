import Katib.Gen.Guards
import Katib.Props.C07
/-!
# The model's decisions about run objects and about the Suggestion's clean-up / restart are the source's path conditions

`Katib/Gen/Guards.lean` is regenerated on every run (`kvh extract guards`): the condition under which control reaches
`r.Create(…, desiredJob)` and `r.Delete(…, desiredJob, …)` in `reconcileJob`, and the status-changing part of
`cleanupSuggestionResources` / `restartSuggestion`, computed from the enclosing `if`s and early returns, over named atoms.
-/
namespace Katib.Gen
open Katib Katib.Ctl

/-- the translator met only conditions it knows and exactly one call site each -/
theorem C07_guards_known :
    jobCreateGuardUnknown = [] ∧ jobDeleteGuardUnknown = [] ∧ jobCreateGuardSites = 1 ∧ jobDeleteGuardSites = 1 ∧
    sugCleanupGuardUnknown = [] ∧ sugRestartGuardUnknown = [] ∧ sugCleanupGuardSites = 1 ∧ sugRestartGuardSites = 1 := by decide

/-- **C07_job_guards_exclusive**: stated on the regenerated conditions of `reconcileJob` alone — the run object is created only
    after a Get that answered NotFound and only for a Trial that is not completed; it is deleted only after a Get that found it
    and only for a completed Trial that does not retain its run; and no pass reaches both calls -/
theorem C07_job_guards_exclusive (getFailed notFound completed retain earlyStopped u : Bool) :
    (jobCreateGuard getFailed notFound completed retain earlyStopped u = true → getFailed = true ∧ notFound = true ∧ completed = false) ∧
    (jobDeleteGuard getFailed notFound completed retain earlyStopped u = true → getFailed = false ∧ completed = true ∧ retain = false) ∧
    (jobCreateGuard getFailed notFound completed retain earlyStopped u && jobDeleteGuard getFailed notFound completed retain earlyStopped u) = false := by
  unfold jobCreateGuard jobDeleteGuard
  cases getFailed <;> cases notFound <;> cases completed <;> cases retain <;> simp

/-- **C07_create_is_source**: for a Trial past its finalizer and Created steps, the model's plan contains the creation of the
    run object exactly when the source's path condition of `r.Create` holds (Get answered NotFound ⇔ the model sees no job) -/
theorem C07_create_is_source (v : World) (k : Key2) (now : Nat) (t : TrialO) (ht : findTrial v k = some t)
    (hd : t.deleted = false) (hf : t.fin = true) (hc : tHas t .created = true) :
    (Call.jobCreate k ∈ (trialPlan v k now).calls) ↔
      jobCreateGuard (findJob v k).isNone (findJob v k).isNone (tCompleted t) t.retain (tHas t .earlyStopped) false = true := by
  constructor
  · intro hmem
    have hg := (Prog.all_iff _ _).1 (C07_run_object_guard v k now) _ hmem
    obtain ⟨_, hnone, t', ht', hnc⟩ := hg
    rw [ht] at ht'; cases ht'
    simp [jobCreateGuard, hnone, hnc]
  · intro hg
    unfold jobCreateGuard at hg
    simp only [Bool.and_eq_true, Bool.not_eq_true', Option.isNone_iff_eq_none] at hg
    obtain ⟨⟨hnone, _⟩, hnc⟩ := hg
    unfold trialPlan
    simp only [ht, hd, hf, hc, hnone, hnc, Bool.not_false, Bool.not_true, Bool.and_false, Bool.false_and, Bool.false_eq_true, if_false]
    simp [Prog.calls]

/-- **C07_delete_is_source**: likewise for the deletion of the run object -/
theorem C07_delete_is_source (v : World) (k : Key2) (now : Nat) (t : TrialO) (ht : findTrial v k = some t)
    (hd : t.deleted = false) (hf : t.fin = true) (hc : tHas t .created = true) :
    (Call.jobDelete k ∈ (trialPlan v k now).calls) ↔
      jobDeleteGuard (findJob v k).isNone (findJob v k).isNone (tCompleted t) t.retain (tHas t .earlyStopped) false = true := by
  constructor
  · intro hmem
    have hg := (Prog.all_iff _ _).1 (C07_run_object_guard v k now) _ hmem
    obtain ⟨_, hsome, t', ht', hcpl, hret⟩ := hg
    rw [ht] at ht'; cases ht'
    cases hj : findJob v k with
    | none => rw [hj] at hsome; cases hsome
    | some j => simp [jobDeleteGuard, hcpl, hret]
  · intro hg
    unfold jobDeleteGuard at hg
    simp only [Bool.and_eq_true, Bool.not_eq_true', Option.isNone_eq_false_iff, Option.isSome_iff_exists] at hg
    obtain ⟨⟨j, hj⟩, hcpl, hret⟩ := hg
    unfold trialPlan
    simp only [ht, hd, hf, hc, hj, hcpl, hret, Bool.not_false, Bool.not_true, Bool.and_false, Bool.false_and, Bool.and_self, Bool.false_eq_true, if_false, if_true]
    simp [Prog.calls]

/-- the experiment controller's clean-up changes the Suggestion unless it is completed or restarting, its restart step unless
    it is restarting — the two tests the model's `expPlan` makes (`sCompleted s || sRestarting s`, `sRestarting s`) -/
theorem C16_cleanup_restart_guards_are_source (sc sr ss er nv fv : Bool) :
    sugCleanupGuard false false sc sr ss er nv fv false = !(sc || sr) ∧
    sugRestartGuard false false sc sr ss er false = !sr := by
  cases sc <;> cases sr <;> exact ⟨rfl, rfl⟩

/-! ## the trial controller's `Reconcile`: finalizer, Created, `reconcileTrial` -/

def trialPlanGen (v : World) (k : Key2) (now : Nat) : Prog :=
  match findTrial v k with
  | none => .done .ok
  | some t =>
    let F (g : Bool → Bool → Bool → Bool → Bool → Bool → Bool → Bool) : Bool := g t.deleted t.fin false false false false false
    let due : Bool := F addFinalizerGuard || F removeFinalizerGuard
    let R (g : Bool → Bool → Bool → Bool → Bool → Bool → Bool → Bool → Bool) : Bool := g false false false due (tHas t .created) false false false
    if R callUpdateFinalizersGuard then
      -- `updateFinalizers`: the database clean-up first when the Trial is being deleted, then the finalizer write
      if F dbCleanupGuard then
        .step (.dbDelete k.name) (.step (.trialUpdateFin k t.rv false) (.done .requeue) (.done .err)) (.done .err)
      else .step (.trialUpdateFin k t.rv true) (.done .requeue) (.done .err)
    else if R markTrialCreatedGuard then
      trialFinish t { t.st with started := true, conds := Cond.set t.st.conds .created true rTrialCreated now }
    else if R callReconcileTrialGuard then
      match findJob v k with
      | none =>
        if tCompleted t then trialFinish t t.st
        else .step (.jobCreate k) (trialAfterJob v t .running now) (.done .err)
      | some j =>
        if tCompleted t && !t.retain then .step (.jobDelete k) (.done .ok) (.done .err)
        else trialAfterJob v t j.state now
    else .done .ok

theorem C07_reconcile_guards_known :
    addFinalizerGuardUnknown = [] ∧ removeFinalizerGuardUnknown = [] ∧ dbCleanupGuardUnknown = [] ∧ finalizerWriteGuardUnknown = [] ∧
    callUpdateFinalizersGuardUnknown = [] ∧ markTrialCreatedGuardUnknown = [] ∧ callReconcileTrialGuardUnknown = [] ∧
    addFinalizerGuardSites = 1 ∧ removeFinalizerGuardSites = 1 ∧ dbCleanupGuardSites = 1 ∧ finalizerWriteGuardSites = 1 ∧
    callUpdateFinalizersGuardSites = 1 ∧ markTrialCreatedGuardSites = 1 ∧ callReconcileTrialGuardSites = 1 := by decide

set_option linter.unusedSimpArgs false in
/-- **C07_reconcile_is_source**: the model's trial reconcile — finalizer added for a live Trial without it, database clean-up
    and then release for a Trial under deletion that holds it, Created, then `reconcileTrial` — is the function rebuilt from the
    regenerated path conditions of `needUpdateFinalizers`, `updateFinalizers` and `Reconcile` -/
theorem C07_reconcile_is_source (v : World) (k : Key2) (now : Nat) : trialPlan v k now = trialPlanGen v k now := by
  unfold trialPlan trialPlanGen addFinalizerGuard removeFinalizerGuard dbCleanupGuard callUpdateFinalizersGuard
    markTrialCreatedGuard callReconcileTrialGuard
  cases ht : findTrial v k with
  | none => rfl
  | some t =>
    cases hd : t.deleted <;> cases hf : t.fin <;> cases hc : tHas t .created <;> simp [hd, hf, hc] <;>
      (cases hj : findJob v k <;> rfl)

/-- the finalizer is written after a successful clean-up or for a Trial that is not being deleted, never after a failed one -/
theorem C07_finalizer_write_guard_is_source (deleting hasFin isK f1 f2 isDel : Bool) :
    finalizerWriteGuard deleting hasFin isK f1 f2 isDel false = (!deleting || !f1) := by
  cases deleting <;> cases f1 <;> rfl


end Katib.Gen
