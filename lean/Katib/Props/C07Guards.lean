import Katib.Gen.Guards
import Katib.Props.C07
/-!
# The model's decisions about run objects and about the Suggestion's clean-up / restart are the source's path conditions

`Katib/Gen/Guards.lean` is regenerated on every run (`kvh extract guards`): the condition under which control reaches
`r.Create(…, desiredJob)` and `r.Delete(…, desiredJob, …)` in `reconcileJob`, and the status-changing part of
`cleanupSuggestionResources` / `restartSuggestion`, computed from the enclosing `if`s and early returns, over named atoms.
-/
namespace Katib.Gen
open Katib Katib.Ctl

/-- the translator met only conditions it knows and exactly one call site each -/
theorem C07_guards_known :
    jobCreateGuardUnknown = [] ∧ jobDeleteGuardUnknown = [] ∧ jobCreateGuardSites = 1 ∧ jobDeleteGuardSites = 1 ∧
    sugCleanupGuardUnknown = [] ∧ sugRestartGuardUnknown = [] ∧ sugCleanupGuardSites = 1 ∧ sugRestartGuardSites = 1 := by decide

/-- **C07_create_is_source**: for a Trial past its finalizer and Created steps, the model's plan contains the creation of the
    run object exactly when the source's path condition of `r.Create` holds (Get answered NotFound ⇔ the model sees no job) -/
theorem C07_create_is_source (v : World) (k : Key2) (now : Nat) (t : TrialO) (ht : findTrial v k = some t)
    (hd : t.deleted = false) (hf : t.fin = true) (hc : tHas t .created = true) :
    (Call.jobCreate k ∈ (trialPlan v k now).calls) ↔
      jobCreateGuard (findJob v k).isNone (findJob v k).isNone (tCompleted t) t.retain (tHas t .earlyStopped) false = true := by
  constructor
  · intro hmem
    have hg := (Prog.all_iff _ _).1 (C07_run_object_guard v k now) _ hmem
    obtain ⟨_, hnone, t', ht', hnc⟩ := hg
    rw [ht] at ht'; cases ht'
    simp [jobCreateGuard, hnone, hnc]
  · intro hg
    unfold jobCreateGuard at hg
    simp only [Bool.and_eq_true, Bool.not_eq_true', Option.isNone_iff_eq_none] at hg
    obtain ⟨⟨hnone, _⟩, hnc⟩ := hg
    unfold trialPlan
    simp only [ht, hd, hf, hc, hnone, hnc, Bool.not_false, Bool.not_true, Bool.and_false, Bool.false_and, Bool.false_eq_true, if_false]
    simp [Prog.calls]

/-- **C07_delete_is_source**: likewise for the deletion of the run object -/
theorem C07_delete_is_source (v : World) (k : Key2) (now : Nat) (t : TrialO) (ht : findTrial v k = some t)
    (hd : t.deleted = false) (hf : t.fin = true) (hc : tHas t .created = true) :
    (Call.jobDelete k ∈ (trialPlan v k now).calls) ↔
      jobDeleteGuard (findJob v k).isNone (findJob v k).isNone (tCompleted t) t.retain (tHas t .earlyStopped) false = true := by
  constructor
  · intro hmem
    have hg := (Prog.all_iff _ _).1 (C07_run_object_guard v k now) _ hmem
    obtain ⟨_, hsome, t', ht', hcpl, hret⟩ := hg
    rw [ht] at ht'; cases ht'
    cases hj : findJob v k with
    | none => rw [hj] at hsome; cases hsome
    | some j => simp [jobDeleteGuard, hcpl, hret]
  · intro hg
    unfold jobDeleteGuard at hg
    simp only [Bool.and_eq_true, Bool.not_eq_true', Option.isNone_eq_false_iff, Option.isSome_iff_exists] at hg
    obtain ⟨⟨j, hj⟩, hcpl, hret⟩ := hg
    unfold trialPlan
    simp only [ht, hd, hf, hc, hj, hcpl, hret, Bool.not_false, Bool.not_true, Bool.and_false, Bool.false_and, Bool.and_self, Bool.false_eq_true, if_false, if_true]
    simp [Prog.calls]

/-- the experiment controller's clean-up changes the Suggestion unless it is completed or restarting, its restart step unless
    it is restarting — the two tests the model's `expPlan` makes (`sCompleted s || sRestarting s`, `sRestarting s`) -/
theorem C16_cleanup_restart_guards_are_source (sc sr ss er nv fv : Bool) :
    sugCleanupGuard false false sc sr ss er nv fv false = !(sc || sr) ∧
    sugRestartGuard false false sc sr ss er false = !sr := by
  cases sc <;> cases sr <;> exact ⟨rfl, rfl⟩

end Katib.Gen
