import Katib.Model.Sidecar
/-!
# C12 — Sidecar injection preserves the workload and wires the collector correctly

Theorems about `Katib.Pod.mutate` (model of `SidecarInjector.Mutate`) for every pod, Trial and environment, and about the
owner walk `katibJob`.  Pods whose primary container has no explicit command need an image-registry lookup: out of scope.
-/
namespace Katib.Pod

theorem updFirst_names (n : String) (f : Container → Container) (hf : ∀ c, (f c).name = c.name ∧ (f c).image = c.image) (cs : List Container) :
    (updFirst n f cs).map (fun c => (c.name, c.image)) = cs.map (fun c => (c.name, c.image)) := by
  induction cs with
  | nil => rfl
  | cons c r ih =>
    simp only [updFirst]
    split
    · simp [(hf c).1, (hf c).2]
    · simp [ih]

theorem map_mount_names (col prim vol dir : String) (cs : List Container) :
    (cs.map (fun c => if c.name = col ∨ c.name = prim then { c with mounts := c.mounts ++ [(vol, dir)] } else c)).map (fun c => (c.name, c.image)) =
      cs.map (fun c => (c.name, c.image)) := by
  induction cs with
  | nil => rfl
  | cons c r ih =>
    simp only [List.map_cons, ih]
    split <;> rfl

theorem wrap_name (t : Trial) (c : Container) : (wrap t c).name = c.name ∧ (wrap t c).image = c.image := ⟨rfl, rfl⟩

/-- C12_light: a non-primary pod, and any pod of a push-collector Trial, is admitted with only the Trial labels (plus
    KATIB_TRIAL_NAME where the primary container exists) — also when the primary container is missing. -/
theorem C12_light (pod : PodS) (t : Trial) (e : Env) (h : nonPrimary pod t = true ∨ t.kind = .push) :
    mutate pod t e = .ok (lightPod pod t) := by
  unfold mutate
  rcases h with h | h
  · simp [h]
  · cases nonPrimary pod t <;> simp [h]

/-- the light outcome keeps every container's name, image and order, adds no container and no volume -/
theorem C12_light_keeps (pod : PodS) (t : Trial) :
    (lightPod pod t).containers.map (fun c => (c.name, c.image)) = pod.containers.map (fun c => (c.name, c.image)) ∧
    (lightPod pod t).volumes = pod.volumes ∧ (lightPod pod t).sharePNS = pod.sharePNS := by
  refine ⟨?_, rfl, rfl⟩
  exact updFirst_names t.primaryContainer (fun c => { c with env := c.env ++ [envTrialName] }) (fun _ => ⟨rfl, rfl⟩) pod.containers

/-- names, images and order of the containers of a full mutation: the originals, then the collector -/
theorem assemble_names (pod : PodS) (t : Trial) (col : Container) (cp : String) :
    (assemble pod t col cp).containers.map (fun c => (c.name, c.image)) =
      pod.containers.map (fun c => (c.name, c.image)) ++ [(col.name, col.image)] := by
  have base : ((lightPod pod t).containers ++ [col]).map (fun c => (c.name, c.image)) =
      pod.containers.map (fun c => (c.name, c.image)) ++ [(col.name, col.image)] := by
    rw [List.map_append, (C12_light_keeps pod t).1]; rfl
  unfold assemble
  simp only []
  by_cases hc : cp = "" <;> by_cases hm : t.mountPath = "" <;> cases hw : needWrap t.kind <;>
    simp only [hc, hm, if_true, if_false, Bool.false_eq_true] <;>
    (repeat (first
      | rw [updFirst_names t.primaryContainer (wrap t) (fun c => wrap_name t c)]
      | rw [map_mount_names]
      | rw [updFirst_names t.primaryContainer (fun c => { c with mounts := c.mounts ++ [(suggestionVolume, cp)] }) (fun _ => ⟨rfl, rfl⟩)])) <;> exact base

/-- C12_containers_kept + C12_one_collector + C12_share_pns + C12_labels: a full mutation keeps every original container
    (name, image, order), appends exactly one collector container, enables process-namespace sharing and sets the labels;
    it happens only for a pod that contains the primary container. -/
theorem C12_full (pod : PodS) (t : Trial) (e : Env) (r : PodS) (h : mutate pod t e = .ok r)
    (hprim : nonPrimary pod t = false) (hkind : t.kind ≠ .push) :
    ∃ col, collectorContainer t e = .ok col ∧
      r.containers.map (fun c => (c.name, c.image)) = pod.containers.map (fun c => (c.name, c.image)) ++ [(col.name, col.image)] ∧
      r.sharePNS = some true ∧ r.labels = mutateLabels pod.labels t ∧ hasContainer pod.containers t.primaryContainer = true := by
  unfold mutate at h
  simp only [hprim, Bool.false_eq_true, if_false, hkind] at h
  cases hhas : hasContainer pod.containers t.primaryContainer with
  | false => simp [hhas] at h
  | true =>
    simp only [hhas, Bool.not_true, Bool.false_eq_true, if_false] at h
    cases hcol : collectorContainer t e with
    | error x => simp [hcol] at h
    | ok col =>
      simp only [hcol] at h
      cases hex : e.experimentExists with
      | false => simp [hex] at h
      | true =>
        simp only [hex, Bool.not_true, Bool.false_eq_true, if_false] at h
        cases hs : e.suggestion with
        | none => simp [hs] at h
        | some sg =>
          obtain ⟨ep, checkpoint⟩ := sg
          simp only [hs, Except.ok.injEq] at h
          subst h
          exact ⟨col, rfl, assemble_names pod t col checkpoint, rfl, rfl, rfl⟩

/-- C12_volume: when the collector reads files the shared metrics volume is added (last) and the pod gains exactly one container. -/
theorem C12_volume (pod : PodS) (t : Trial) (col : Container) (cp : String) (hm : t.mountPath ≠ "") :
    (assemble pod t col cp).volumes.getLast? = some metricsVolume ∧
    (assemble pod t col cp).containers.length = pod.containers.length + 1 := by
  constructor
  · unfold assemble
    simp [hm]
  · have := congrArg List.length (assemble_names pod t col cp)
    simpa using this

theorem mem_updFirst (n : String) (f : Container → Container) (cs : List Container) (c : Container) (h : c ∈ updFirst n f cs) :
    c ∈ cs ∨ ∃ c0 ∈ cs, c = f c0 := by
  induction cs with
  | nil => simp [updFirst] at h
  | cons a r ih =>
    simp only [updFirst] at h
    split at h
    · rcases List.mem_cons.1 h with h | h
      · exact Or.inr ⟨a, List.mem_cons_self, h⟩
      · exact Or.inl (List.mem_cons_of_mem _ h)
    · rcases List.mem_cons.1 h with h | h
      · exact Or.inl (h ▸ List.mem_cons_self)
      · rcases ih h with h | ⟨c0, hc0, e⟩
        · exact Or.inl (List.mem_cons_of_mem _ h)
        · exact Or.inr ⟨c0, List.mem_cons_of_mem _ hc0, e⟩

/-- a statement about a container's name and its mounts of one volume survives an in-place edit that keeps both -/
theorem updFirst_keeps (n : String) (f : Container → Container) (P : Container → Prop) (cs : List Container)
    (hf : ∀ c, P c → P (f c)) (h : ∀ c ∈ cs, P c) : ∀ c ∈ updFirst n f cs, P c := by
  intro c hc
  rcases mem_updFirst n f cs c hc with hc | ⟨c0, hc0, e⟩
  · exact h c hc
  · exact e ▸ hf c0 (h c0 hc0)

/-- the metrics volume is mounted at the metrics directory in this container -/
def MountsMetrics (t : Trial) (c : Container) : Prop := (metricsVolume, t.mountDir) ∈ c.mounts
/-- the container mounts the metrics volume somewhere -/
def MountsMetricsAnywhere (c : Container) : Prop := ∃ m ∈ c.mounts, m.1 = metricsVolume

/-- C12_mounts: when the collector reads files, the shared metrics volume is mounted — at the metrics directory — in exactly
    the containers named like the primary container or like the collector container, provided no container mounted a volume
    of that name before. -/
theorem C12_mounts (pod : PodS) (t : Trial) (col : Container) (cp : String) (hm : t.mountPath ≠ "")
    (hfresh : ∀ c ∈ pod.containers ++ [col], ¬ MountsMetricsAnywhere c) :
    ∀ c ∈ (assemble pod t col cp).containers,
      (MountsMetricsAnywhere c ↔ (c.name = col.name ∨ c.name = t.primaryContainer)) ∧
      ((c.name = col.name ∨ c.name = t.primaryContainer) → MountsMetrics t c) := by
  -- the invariant carried through the pipeline before / after the metrics mount is added
  have hsv : suggestionVolume ≠ metricsVolume := by decide
  have h2 : ∀ c ∈ (lightPod pod t).containers ++ [col], ¬ MountsMetricsAnywhere c := by
    intro c hc
    rcases List.mem_append.1 hc with hc | hc
    · exact updFirst_keeps t.primaryContainer (fun c => { c with env := c.env ++ [envTrialName] }) (fun c => ¬ MountsMetricsAnywhere c) pod.containers
        (fun _ h => h) (fun c hc => hfresh c (List.mem_append_left _ hc)) c hc
    · exact hfresh c (List.mem_append_right _ hc)
  have h3 : ∀ c ∈ (if cp = "" then (lightPod pod t).containers ++ [col]
      else updFirst t.primaryContainer (fun c => { c with mounts := c.mounts ++ [(suggestionVolume, cp)] }) ((lightPod pod t).containers ++ [col])),
      ¬ MountsMetricsAnywhere c := by
    split
    · exact h2
    · refine updFirst_keeps _ _ (fun c => ¬ MountsMetricsAnywhere c) _ ?_ h2
      intro c hc ⟨m, hmem, hmv⟩
      rcases List.mem_append.1 hmem with hmem | hmem
      · exact hc ⟨m, hmem, hmv⟩
      · simp only [List.mem_singleton] at hmem
        subst hmem
        exact hsv hmv
  let Good : Container → Prop := fun c =>
    (MountsMetricsAnywhere c ↔ (c.name = col.name ∨ c.name = t.primaryContainer)) ∧ ((c.name = col.name ∨ c.name = t.primaryContainer) → MountsMetrics t c)
  have h4 : ∀ cs3 : List Container, (∀ c ∈ cs3, ¬ MountsMetricsAnywhere c) →
      ∀ c ∈ cs3.map (fun c => if c.name = col.name ∨ c.name = t.primaryContainer then { c with mounts := c.mounts ++ [(metricsVolume, t.mountDir)] } else c), Good c := by
    intro cs3 hcs c hc
    rcases List.mem_map.1 hc with ⟨c0, hc0, e⟩
    subst e
    by_cases hn : c0.name = col.name ∨ c0.name = t.primaryContainer
    · simp only [hn, if_true]
      refine ⟨⟨fun _ => hn, fun _ => ⟨(metricsVolume, t.mountDir), by simp, rfl⟩⟩, fun _ => ?_⟩
      simp [MountsMetrics]
    · simp only [hn, if_false]
      exact ⟨⟨fun h => absurd h (hcs c0 hc0), fun h => absurd h hn⟩, fun h => absurd h hn⟩
  unfold assemble
  simp only [hm, if_false]
  split
  · refine updFirst_keeps t.primaryContainer (wrap t) Good _ (fun c h => h) ?_
    exact h4 _ h3
  · exact h4 _ h3

/-- C12_args: the collector of a built-in kind is configured with the Trial's name, metric names, objective type and the
    DB-manager address first; with stop rules the list ends with the early-stopping endpoint of the Trial's Suggestion. -/
theorem C12_args (t : Trial) (e : Env) (args : List String) (h : collectorArgs t e = .ok args) :
    args.take 8 = ["-t", t.name, "-m", t.metricNames, "-o-type", t.objType, "-s-db", e.dbAddr] ∧
    (∀ rules ep cp, t.rules = some rules → rules ≠ [] → e.suggestion = some (ep, cp) → ["-s-earlystop", ep] <:+ args) := by
  unfold collectorArgs at h
  simp only [] at h
  split at h
  · rename_i hempty
    cases h
    refine ⟨rfl, ?_⟩
    intro rules ep cp hr hne _
    simp only [hr, Option.getD_some, List.isEmpty_iff] at hempty
    exact absurd hempty hne
  · split at h
    · cases h
    · rename_i ep cp hs
      cases h
      refine ⟨rfl, ?_⟩
      intro rules ep' cp' _ _ hs'
      rw [hs] at hs'
      cases hs'
      exact ⟨_, rfl⟩

/-- the path flag is present whenever the collector reads files -/
theorem C12_args_path (t : Trial) (e : Env) (args : List String) (h : collectorArgs t e = .ok args) (hm : t.mountPath ≠ "") :
    "-path" ∈ args ∧ t.mountPath ∈ args := by
  unfold collectorArgs at h
  simp only [hm, ne_eq, not_false_eq_true, if_true] at h
  split at h
  · cases h; simp
  · split at h
    · cases h
    · cases h; simp

/-- C12_command_verbatim: the wrapper keeps the training command's words verbatim and in order inside its single argument,
    followed only by the redirect / early-stopping / completion suffix; a leading `sh -c` / `bash -c` is reused as the
    wrapper's shell instead of being nested. -/
theorem C12_command_verbatim (t : Trial) (c : Container) :
    ∃ words, (wrap t c).args = [" ".intercalate (words ++ wrapExtras t)] ∧
      ((wrap t c).command ++ words = c.command ++ c.args ∨ ((wrap t c).command = ["sh", "-c"] ∧ words = c.command ++ c.args)) ∧
      (wrapExtras t).getLast? = some (completedCommand t.mountDir) := by
  refine ⟨(splitShell (c.command ++ c.args)).2, rfl, ?_, ?_⟩
  · change (splitShell (c.command ++ c.args)).1 ++ (splitShell (c.command ++ c.args)).2 = c.command ++ c.args ∨
      ((splitShell (c.command ++ c.args)).1 = ["sh", "-c"] ∧ (splitShell (c.command ++ c.args)).2 = c.command ++ c.args)
    generalize c.command ++ c.args = all
    unfold splitShell
    match all with
    | [] => exact Or.inr ⟨rfl, rfl⟩
    | [a] => exact Or.inr ⟨rfl, rfl⟩
    | a0 :: a1 :: rest =>
      simp only []
      split
      · exact Or.inl rfl
      · exact Or.inr ⟨rfl, rfl⟩
  · unfold wrapExtras; simp

/-- C12_unrelated: a pod that neither is owned by a Trial nor has any owner is not a Trial's pod (admitted unmodified) -/
theorem C12_unrelated (store : List Obj) (fuel : Nat) (o : Obj) (h : o.owners = []) : katibJob store fuel o = none := by
  cases fuel with
  | zero => simp [katibJob]
  | succ n => simp [katibJob, h, katibJob.tryOwners]

/-- a pod directly owned by an object that a Trial owns belongs to the Trial named like that object (job name = trial name) -/
theorem C12_owner_walk (store : List Obj) (fuel : Nat) (pod job : Obj) (hj : job ∈ store)
    (hown : pod.owners = [(job.kind, "batch/v1", job.name)]) (hjob : job.owners = [(trialKind, trialAPIVersion, "t")])
    (huniq : store.find? (fun x => x.kind = job.kind ∧ x.name = job.name) = some job) (hk : job.kind ≠ trialKind) :
    katibJob store (fuel + 2) pod = some job.name := by
  have _ := hj
  have huniq' : store.find? (fun x => decide (x.kind = job.kind) && decide (x.name = job.name)) = some job := by simpa using huniq
  simp [katibJob, hown, hk, katibJob.tryOwners, huniq', hjob]

/-! Non-vacuity: a StdOut trial, pod with one container `main` running `python train.py` -/
example :
    let t : Trial := { name := "t1", labels := [("katib.kubeflow.org/experiment", "e")], primaryPodLabels := none, primaryContainer := "main", kind := .stdOut,
                       mountPath := "/var/log/katib/metrics.log", mountIsFile := true, mountDir := "/var/log/katib", filters := [], fileFormat := none,
                       metricNames := "acc", objType := "maximize", rules := none, customCollector := none }
    let e : Env := { dbAddr := "db:6789", collectorImage := some "img", waitAll := none, experimentExists := true, suggestion := some ("e-random.ns:6788", ""),
                     pvcName := "e-random", checkpointSubPath := "e/t1" }
    let pod : PodS := { labels := [], containers := [⟨"main", "img", ["python", "train.py"], [], [], []⟩], volumes := [], sharePNS := none }
    (match mutate pod t e with
     | .ok r => r.containers.map (·.name) == ["main", "metrics-logger-and-collector"] && r.volumes == ["metrics-volume"] &&
                (r.containers.head?.map (·.command)) == some ["sh", "-c"]
     | .error _ => false) = true := by decide

end Katib.Pod
