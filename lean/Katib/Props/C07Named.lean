import Katib.Props.C07World
/-!
# C07 over whole schedules: every run object carries the key (namespace and name) of a Trial

`C07_named_as_trial`: for every list of simulator operations in which nobody deletes Trials, every run object of the current
store has the key of a Trial of the current store.  The trial controller creates a run object only under the key of the Trial
it read (`C07_run_object_guard`), Trials never disappear (`TPast`), and nobody else creates run objects.
-/
namespace Katib.Ctl
open Katib Katib.Exp

def JT (w : World) : Prop := ∀ j ∈ w.jobs, (findTrial w j.key).isSome = true

def JN (hT : World) : Call → Prop
  | .jobCreate k => (findTrial hT k).isSome = true
  | _ => True

theorem applyCall_jobs_mem {w w' : World} {c : Call} (h : applyCall w c = .ok w') :
    ∀ j ∈ w'.jobs, j ∈ w.jobs ∨ c = .jobCreate j.key := by
  cases c <;> simp only [applyCall, createKey] at h <;> (repeat' split at h) <;> (try cases h) <;>
    (intro j hj; first
      | exact Or.inl hj
      | exact Or.inl (List.mem_filter.1 hj).1
      | (simp only [List.mem_append, List.mem_singleton] at hj
         rcases hj with hj | hj
         · exact Or.inl hj
         · subst hj; exact Or.inr rfl))

theorem tpast_isSome {a b : World} (h : TPast a b) {k : Key2} (hk : (findTrial a k).isSome = true) : (findTrial b k).isSome = true := by
  obtain ⟨t, ht⟩ := Option.isSome_iff_exists.1 hk
  obtain ⟨tc, htc, _⟩ := h k t ht
  rw [htc]; rfl

theorem exec_named {hT w0 : World} (f : Faults) (p : Prog) (hp : p.All (fun c => TJust hT c ∧ JN hT c))
    (hW : TInv w0) (hP : TPast hT w0) (hJ : JT w0) : JT (exec f p w0 0 []).w := by
  have := exec_preserves (I := fun w => (TInv w ∧ TPast w0 w) ∧ JT w) (P := fun c => TJust hT c ∧ JN hT c) f
    (by
      intro w c w' hI hc happ
      obtain ⟨⟨i1, i2⟩, i3⟩ := hI
      obtain ⟨h1, h2⟩ := apply_pres_trial i1 (TPast.trans hP i2) hc.1 happ
      refine ⟨⟨h1, TPast.trans i2 h2⟩, ?_⟩
      intro j hj
      rcases applyCall_jobs_mem happ j hj with hold | hnew
      · exact tpast_isSome h2 (i3 j hold)
      · subst hnew
        exact tpast_isSome h2 (tpast_isSome (TPast.trans hP i2) hc.2))
    p w0 0 [] hp ⟨⟨hW, TPast.refl w0⟩, hJ⟩
  exact this.2

theorem trialPlan_jn (v hT : World) (k : Key2) (now : Nat) (htr : v.trials = hT.trials) : (trialPlan v k now).All (JN hT) := by
  refine (C07_run_object_guard v k now).mono ?_
  intro c hc
  cases c with
  | jobCreate k' =>
    obtain ⟨h1, _, t, ht, _⟩ := hc
    show (findTrial hT k').isSome = true
    rw [← findTrial_congr htr, h1, ht]; rfl
  | _ => trivial

theorem expPlan_jn (v hT : World) (k : Key2) (now : Nat) : (expPlan v k now).All (JN hT) := by
  cases he : findExp v k with
  | none => unfold expPlan; rw [he]; trivial
  | some e =>
    refine (expPlan_guard v k now e he).mono ?_
    intro c hc
    cases c with
    | jobCreate _ => exact absurd hc id
    | _ => trivial

theorem sugPlan_jn (v hT : World) (k : Key2) (env : SugEnv) (now : Nat) : (sugPlan v k env now).All (JN hT) := by
  cases hs : findSug v k with
  | none => unfold sugPlan; rw [hs]; trivial
  | some s =>
    refine (sugPlan_target v k env now s hs).mono ?_
    intro c hc
    cases c with
    | jobCreate _ => exact absurd hc id
    | _ => trivial

def SInvN (s : Sim) : Prop := SInvT s ∧ JT s.cur

theorem jt_of {w w' : World} (hP : TPast w w') (hsub : ∀ j ∈ w'.jobs, ∃ j0 ∈ w.jobs, j0.key = j.key) (h : JT w) : JT w' := by
  intro j hj
  obtain ⟨j0, hj0, hk⟩ := hsub j hj
  rw [← hk]; exact tpast_isSome hP (h j0 hj0)

theorem stepWorld_okN {s : Sim} (hI : SInvN s) (op : Op) (hop : ∀ k, op ≠ .userDelete k) : JT (stepWorld s op).1 := by
  have hT := hI.1
  obtain ⟨⟨_, _⟩, t3⟩ := stepWorld_okT hT op hop
  have hW := hT.1.1
  have hJ := hI.2
  have same : (∀ j ∈ (stepWorld s op).1.jobs, ∃ j0 ∈ s.cur.jobs, j0.key = j.key) → JT (stepWorld s op).1 := fun h => jt_of t3 h hJ
  cases op with
  | recExp k' vE vT vS f =>
    exact exec_named f _ (Prog.All.and (expPlan_tjust (assemble s vE vT vS (s.hist.size - 1)) s.cur k' s.opIndex)
      (expPlan_jn (assemble s vE vT vS (s.hist.size - 1)) s.cur k' s.opIndex)) hW (TPast.refl _) hJ
  | recSug k' vS vE vT vD f env =>
    exact exec_named f _ (Prog.All.and (sugPlan_tjust (assemble s vE vT vS vD) s.cur k' env s.opIndex)
      (sugPlan_jn (assemble s vE vT vS vD) s.cur k' env s.opIndex)) hW (TPast.refl _) hJ
  | recTrial k' vT f =>
    have hS := snap_goodT hT vT
    exact exec_named f _ (Prog.All.and
      (trialPlan_tjust (assemble s (s.hist.size - 1) vT (s.hist.size - 1) (s.hist.size - 1)) (snapAt s vT) k' s.opIndex rfl hS.1)
      (trialPlan_jn (assemble s (s.hist.size - 1) vT (s.hist.size - 1) (s.hist.size - 1)) (snapAt s vT) k' s.opIndex rfl)) hW hS.2 hJ
  | job k' ok =>
    apply same
    simp only [stepWorld]
    split
    · exact fun j hj => ⟨j, hj, rfl⟩
    · intro j hj
      simp only [List.mem_map] at hj
      obtain ⟨j0, hj0, rfl⟩ := hj
      exact ⟨j0, hj0, by split <;> rfl⟩
  | jobGone k' =>
    apply same
    simp only [stepWorld]
    split
    · exact fun j hj => ⟨j, hj, rfl⟩
    · split
      · exact fun j hj => ⟨j, (List.mem_filter.1 hj).1, rfl⟩
      · exact fun j hj => ⟨j, hj, rfl⟩
  | metric t text key nm => apply same; simp only [stepWorld]; split <;> exact fun j hj => ⟨j, hj, rfl⟩
  | earlyStop k' =>
    apply same
    simp only [stepWorld]
    split
    · exact fun j hj => ⟨j, hj, rfl⟩
    · split <;> exact fun j hj => ⟨j, hj, rfl⟩
  | deployReady k' => apply same; simp only [stepWorld]; split <;> exact fun j hj => ⟨j, hj, rfl⟩
  | editMax k' n => apply same; simp only [stepWorld]; split <;> exact fun j hj => ⟨j, hj, rfl⟩
  | userDelete k' => exact absurd rfl (hop k')
  | noop => exact hJ

theorem step_invN {s : Sim} (hI : SInvN s) (op : Op) (hop : ∀ k, op ≠ .userDelete k) : SInvN (step s op).1 := by
  refine ⟨step_invT hI.1 op hop, ?_⟩
  have := stepWorld_okN hI op hop
  unfold step; exact this

theorem run_invN (ops : List Op) : ∀ {s : Sim}, SInvN s → (∀ op ∈ ops, ∀ k, op ≠ .userDelete k) → SInvN (run s ops) := by
  induction ops with
  | nil => intro s h _; exact h
  | cons op r ih =>
    intro s h hops
    exact ih (step_invN h op (hops op List.mem_cons_self)) (fun o ho => hops o (List.mem_cons_of_mem _ ho))

/-- **C07_named_as_trial**: over every schedule without Trial deletions, every run object has the namespace and name of a
    Trial that exists. -/
theorem C07_named_as_trial (es : List ExpInit) (ops : List Op) (hops : ∀ op ∈ ops, ∀ k, op ≠ .userDelete k) :
    ∀ j ∈ (run (Sim.init es) ops).cur.jobs, ∃ t, findTrial (run (Sim.init es) ops).cur j.key = some t := by
  have hI : SInvN (run (Sim.init es) ops) := run_invN ops ⟨init_invT es, fun j hj => by simp [Sim.init] at hj⟩ hops
  intro j hj
  exact Option.isSome_iff_exists.1 (hI.2 j hj)

end Katib.Ctl
