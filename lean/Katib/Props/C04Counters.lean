import Katib.Props.C04Schedules
import Katib.Props.C01Parallel
import Katib.Props.C03World
/-!
# C04 on schedules: an Experiment without Trials has zero counters

`C04_quiescent_verdict_on_schedules_names` still assumed that an Experiment whose Trial list is empty carries zero
`trialsPending/Running/…` counters.  Here that is proved for every schedule without Trial deletions:

* the experiment controller rewrites the counters only from a non-empty Trial list it was shown (`UpdateExperimentStatus` is
  skipped for an empty list) — plan guard `CGuard`, walk `cg_*`;
* every Trial list it can be shown is that of a snapshot of the history, and (without user deletions) a Trial of a snapshot
  is still there (`TPast`);

so non-zero counters mean that some snapshot held a Trial of the Experiment (`EverTrials`, stated relative to the growing
history), and then the current store holds one too.
-/
namespace Katib.Ctl
open Katib Katib.Exp

/-- what a status write of the experiment controller does to the counters: keeps those of the copy it read, or was shown Trials -/
def CGuard (v : World) (e : ExpO) : Call → Prop
  | .expStatus _ _ st' => st'.counts = e.st.counts ∨ trialsOf v e.key ≠ []
  | _ => True

theorem cg_expFinish (v : World) (e : ExpO) (st : ExpSt) (h : st.counts = e.st.counts ∨ trialsOf v e.key ≠ []) :
    (expFinish e st).All (CGuard v e) := by
  unfold expFinish; split
  · trivial
  · exact ⟨h, trivial, trivial⟩

theorem cg_creates (v : World) (e : ExpO) (l : List String) (k : Prog) (hk : k.All (CGuard v e)) :
    (l.foldr (fun a k => Prog.step (.trialCreate (mkTrial e a)) k k) k).All (CGuard v e) := by
  induction l with
  | nil => exact hk
  | cons a l ih => exact ⟨trivial, ih, ih⟩

theorem cg_expCreateTrials (v : World) (e : ExpO) (st : ExpSt) (ts : List TrialO) (add : Int) (now : Nat)
    (h : st.counts = e.st.counts ∨ trialsOf v e.key ≠ []) : (expCreateTrials v e st ts add now).All (CGuard v e) := by
  unfold expCreateTrials
  simp only []
  split
  · exact ⟨trivial, cg_expFinish v e st h, trivial⟩
  · split
    · exact cg_expFinish v e _ h
    · split
      · exact ⟨trivial, cg_creates v e _ _ (cg_expFinish v e st h), trivial⟩
      · exact cg_creates v e _ _ (cg_expFinish v e st h)

theorem cg_expReconcileTrials (v : World) (e : ExpO) (st : ExpSt) (ts : List TrialO) (now : Nat)
    (h : st.counts = e.st.counts ∨ trialsOf v e.key ≠ []) : (expReconcileTrials v e st ts now).All (CGuard v e) := by
  unfold expReconcileTrials
  split
  · trivial
  · split
    · split
      · exact cg_expCreateTrials v e _ _ _ now h
      · exact cg_expFinish v e _ h
    · exact cg_expFinish v e _ h

theorem cg_expMain (v : World) (e : ExpO) (st : ExpSt) (now : Nat) (h : st.counts = e.st.counts) :
    (expMain v e st now).All (CGuard v e) := by
  unfold expMain
  split
  · exact cg_expFinish v e _ (Or.inl h)
  · simp only []
    have h1 : (if (trialsOf v e.key).isEmpty = true then st else expUpdateStatus e st (trialsOf v e.key) now).counts = e.st.counts ∨
        trialsOf v e.key ≠ [] := by
      split
      · exact Or.inl h
      · rename_i hne
        exact Or.inr (fun hh => hne (by rw [hh]; rfl))
    generalize (if (trialsOf v e.key).isEmpty = true then st else expUpdateStatus e st (trialsOf v e.key) now) = st1 at h1
    split
    · exact cg_expReconcileTrials v e st1 _ now h1
    · exact cg_expFinish v e _ h1

theorem expPlan_cguard (v : World) (k : Key2) (now : Nat) (e : ExpO) (he : findExp v k = some e) :
    (expPlan v k now).All (CGuard v e) := by
  have hk : e.key = k := findExp_key he
  subst hk
  unfold expPlan
  rw [he]
  simp only []
  split
  · exact ⟨trivial, trivial, trivial⟩
  · split
    · exact ⟨trivial, trivial, trivial⟩
    · split
      · have cleanupOk : ∀ next : Prog, next.All (CGuard v e) →
            (if e.cfg.resume = Resume.never ∨ e.cfg.resume = Resume.fromVolume then
              match findSug v e.key with
              | none => next
              | some s =>
                if (sCompleted s || sRestarting s) = true then next
                else Prog.step (Call.sugStatus e.key s.rv { s.st with conds := sugMarkSucceeded s.st.conds rSugExpSucceeded now }) next (Prog.done Res.err)
             else next).All (CGuard v e) := by
          intro next hn
          split
          · split
            · exact hn
            · split
              · exact hn
              · exact ⟨trivial, hn, trivial⟩
          · exact hn
        split
        · apply cleanupOk
          split
          · split
            · exact cg_expMain v e _ now rfl
            · split
              · exact cg_expMain v e _ now rfl
              · exact ⟨trivial, cg_expMain v e _ now rfl, trivial⟩
          · exact cg_expMain v e _ now rfl
        · split
          · exact cleanupOk _ trivial
          · exact cleanupOk _ (cg_expMain v e _ now rfl)
      · exact cg_expMain v e _ now rfl

/-! ## the invariant, relative to the growing history -/

/-- some snapshot of `hs` holds a Trial of Experiment `k` -/
def EverTrials (hs : Array World) (k : Key2) : Prop :=
  ∃ (i : Nat) (h : World) (t : TrialO), hs[i]? = some h ∧ t ∈ h.trials ∧ t.key.ns = k.ns ∧ t.exp = k.name

def ZOk (hs : Array World) (k : Key2) (st : ExpSt) : Prop := (activeCount st = 0 ∧ completedCount st = 0) ∨ EverTrials hs k

def ZInv (hs : Array World) (k : Key2) (w : World) : Prop := ∀ e ∈ w.exps, e.key = k → ZOk hs k e.st

def ZJust (hs : Array World) (k : Key2) : Call → Prop
  | .expStatus k' _ st' => k' = k → ZOk hs k st'
  | _ => True

theorem zok_counts {hs : Array World} {k : Key2} {a b : ExpSt} (h : b.counts = a.counts) (ha : ZOk hs k a) : ZOk hs k b := by
  unfold ZOk activeCount completedCount at *
  rw [h]; exact ha

theorem zinv_same {hs : Array World} {k : Key2} {w w' : World} (e : w'.exps = w.exps) (h : ZInv hs k w) : ZInv hs k w' := by
  unfold ZInv; rw [e]; exact h

theorem zinv_upd {hs : Array World} {k : Key2} {w : World} (k' : Key2) (f : ExpO → ExpO) (hkey : ∀ e, (f e).key = e.key)
    (hf : ∀ e, e.key = k' → e.key = k → ZOk hs k e.st → ZOk hs k (f e).st) (h : ZInv hs k w) : ZInv hs k (updExp w k' f) := by
  intro e' he' hk'
  unfold updExp at he'
  simp only [List.mem_map] at he'
  obtain ⟨e, he, rfl⟩ := he'
  split at hk' <;> rename_i hc
  · rw [hkey] at hk'
    simp only [hc, if_true]
    exact hf e hc hk' (h e he hk')
  · simp only [hc, if_false]
    exact h e he hk'

theorem apply_exps_same {w w' : World} {c : Call} (h : applyCall w c = .ok w')
    (hc : match c with | .expStatus _ _ _ => False | .expUpdateFin _ _ _ => False | _ => True) : w'.exps = w.exps := by
  cases c with
  | expStatus k' rv st => exact absurd hc id
  | expUpdateFin k' rv fin => exact absurd hc id
  | sugCreate s' => simp only [applyCall] at h; split at h <;> cases h; rfl
  | sugUpdateReq k' rv req =>
    simp only [applyCall] at h; split at h
    · cases h
    · split at h <;> cases h; rfl
  | sugStatus k' rv st =>
    simp only [applyCall] at h; split at h
    · cases h
    · split at h <;> cases h; rfl
  | trialCreate t => simp only [applyCall] at h; split at h <;> cases h; rfl
  | trialStatus k' rv st =>
    simp only [applyCall] at h; split at h
    · cases h
    · split at h <;> cases h; rfl
  | trialUpdateFin k' rv fin =>
    simp only [applyCall] at h; split at h
    · cases h
    · split at h
      · cases h
      · split at h <;> cases h <;> rfl
  | trialDelete k' =>
    simp only [applyCall] at h; split at h
    · cases h
    · split at h <;> cases h <;> rfl
  | jobCreate k' => simp only [applyCall] at h; split at h <;> cases h; rfl
  | jobDelete k' => simp only [applyCall] at h; split at h <;> cases h; rfl
  | deployCreate k' => simp only [applyCall] at h; split at h <;> cases h; rfl
  | deployDelete k' => simp only [applyCall] at h; split at h <;> cases h; rfl
  | svcCreate k' =>
    simp only [applyCall, createKey] at h; split at h
    · cases h
    · cases h; rfl
  | svcDelete k' => simp only [applyCall] at h; split at h <;> cases h; rfl
  | pvcCreate k' =>
    simp only [applyCall, createKey] at h; split at h
    · cases h
    · cases h; rfl
  | saCreate k' =>
    simp only [applyCall, createKey] at h; split at h
    · cases h
    · cases h; rfl
  | roleCreate k' =>
    simp only [applyCall, createKey] at h; split at h
    · cases h
    · cases h; rfl
  | rbCreate k' =>
    simp only [applyCall, createKey] at h; split at h
    · cases h
    · cases h; rfl
  | rpcValidate e => simp only [applyCall] at h; cases h; rfl
  | rpcValidateES => simp only [applyCall] at h; cases h; rfl
  | rpcGetSuggestions e cur total ts consume ok => simp only [applyCall] at h; split at h <;> cases h; rfl
  | rpcGetRules e ok => simp only [applyCall] at h; split at h <;> cases h; rfl
  | dbGet t => simp only [applyCall] at h; cases h; rfl
  | dbDelete t => simp only [applyCall] at h; cases h; rfl
  | dbReport t e => simp only [applyCall] at h; split at h <;> cases h <;> rfl

theorem apply_pres_Z {hs : Array World} {k : Key2} {w w' : World} {c : Call} (hZ : ZInv hs k w) (hJ : ZJust hs k c)
    (h : applyCall w c = .ok w') : ZInv hs k w' := by
  cases c with
  | expStatus k' rv st =>
    simp only [applyCall] at h; split at h
    · cases h
    · split at h <;> cases h
      exact zinv_upd _ _ (fun _ => rfl) (fun e h1 h2 _ => hJ (by rw [← h1, h2])) hZ
  | expUpdateFin k' rv fin =>
    simp only [applyCall] at h; split at h
    · cases h
    · split at h <;> cases h
      exact zinv_upd _ _ (fun _ => rfl) (fun _ _ _ he => he) hZ
  | sugCreate s' => exact zinv_same (apply_exps_same h trivial) hZ
  | sugUpdateReq k' rv req => exact zinv_same (apply_exps_same h trivial) hZ
  | sugStatus k' rv st => exact zinv_same (apply_exps_same h trivial) hZ
  | trialCreate t => exact zinv_same (apply_exps_same h trivial) hZ
  | trialStatus k' rv st => exact zinv_same (apply_exps_same h trivial) hZ
  | trialUpdateFin k' rv fin => exact zinv_same (apply_exps_same h trivial) hZ
  | trialDelete k' => exact zinv_same (apply_exps_same h trivial) hZ
  | jobCreate k' => exact zinv_same (apply_exps_same h trivial) hZ
  | jobDelete k' => exact zinv_same (apply_exps_same h trivial) hZ
  | deployCreate k' => exact zinv_same (apply_exps_same h trivial) hZ
  | deployDelete k' => exact zinv_same (apply_exps_same h trivial) hZ
  | svcCreate k' => exact zinv_same (apply_exps_same h trivial) hZ
  | svcDelete k' => exact zinv_same (apply_exps_same h trivial) hZ
  | pvcCreate k' => exact zinv_same (apply_exps_same h trivial) hZ
  | saCreate k' => exact zinv_same (apply_exps_same h trivial) hZ
  | roleCreate k' => exact zinv_same (apply_exps_same h trivial) hZ
  | rbCreate k' => exact zinv_same (apply_exps_same h trivial) hZ
  | rpcValidate e => exact zinv_same (apply_exps_same h trivial) hZ
  | rpcValidateES => exact zinv_same (apply_exps_same h trivial) hZ
  | rpcGetSuggestions e cur total ts consume ok => exact zinv_same (apply_exps_same h trivial) hZ
  | rpcGetRules e ok => exact zinv_same (apply_exps_same h trivial) hZ
  | dbGet t => exact zinv_same (apply_exps_same h trivial) hZ
  | dbDelete t => exact zinv_same (apply_exps_same h trivial) hZ
  | dbReport t e => exact zinv_same (apply_exps_same h trivial) hZ

theorem evertrials_push {hs : Array World} {k : Key2} (w : World) (h : EverTrials hs k) : EverTrials (hs.push w) k := by
  obtain ⟨i, h0, t, hi, h1, h2, h3⟩ := h
  refine ⟨i, h0, t, ?_, h1, h2, h3⟩
  rw [Array.getElem?_push]
  have hlt : i < hs.size := by
    cases Nat.lt_or_ge i hs.size with
    | inl h => exact h
    | inr hge => rw [Array.getElem?_eq_none hge] at hi; cases hi
  rw [if_neg (by omega)]; exact hi

theorem zinv_push {hs : Array World} {k : Key2} {w : World} (w' : World) (h : ZInv hs k w) : ZInv (hs.push w') k w :=
  fun e he hk => (h e he hk).imp id (evertrials_push w')

/-! ## plans -/

theorem findExp_mem {w : World} {k : Key2} {e : ExpO} (h : findExp w k = some e) : e ∈ w.exps := by
  unfold findExp at h
  exact List.mem_of_find?_eq_some h

theorem expPlan_zjust (hs : Array World) (k : Key2) (v : World) (k' : Key2) (now : Nat) (hv : ZInv hs k v)
    (hT : trialsOf v k ≠ [] → EverTrials hs k) : (expPlan v k' now).All (ZJust hs k) := by
  cases he : findExp v k' with
  | none => unfold expPlan; rw [he]; trivial
  | some e =>
    have hkey := findExp_key he
    refine (Prog.All.and (expPlan_guard v k' now e he) (expPlan_cguard v k' now e he)).mono ?_
    intro c hc
    cases c with
    | expStatus k'' _ st' =>
      intro hkk
      have hke : e.key = k := by rw [← hc.1.1, hkk]
      rcases hc.2 with h | h
      · exact zok_counts h (hv e (findExp_mem he) hke)
      · rw [hke] at h; exact Or.inr (hT h)
    | _ => trivial

theorem sugPlan_zjust (hs : Array World) (k : Key2) (v : World) (k' : Key2) (env : SugEnv) (now : Nat) :
    (sugPlan v k' env now).All (ZJust hs k) := by
  cases hsg : findSug v k' with
  | none => unfold sugPlan; rw [hsg]; trivial
  | some s =>
    refine (sugPlan_guard v k' env now s hsg).mono ?_
    intro c hc
    cases c <;> first | trivial | exact absurd hc id

theorem trialPlan_zjust (hs : Array World) (k : Key2) (v : World) (k' : Key2) (now : Nat) : (trialPlan v k' now).All (ZJust hs k) :=
  (trialPlan_calls v k' now).mono (fun c hc => by cases c <;> first | trivial | exact absurd hc id)

/-! ## schedules -/

def SInvZ (k : Key2) (s : Sim) : Prop :=
  (∀ (i : Nat) (h : World), s.hist[i]? = some h → ZInv s.hist k h ∧ KInv h) ∧ (ZInv s.hist k s.cur ∧ KInv s.cur) ∧
    s.hist[s.hist.size - 1]? = some s.cur

theorem snap_goodZ {k : Key2} {s : Sim} (hI : SInvZ k s) (i : Nat) : ZInv s.hist k (snapAt s i) := by
  unfold snapAt
  cases h : s.hist[i]? with
  | none => exact hI.2.1.1
  | some w => exact (hI.1 i w h).1

theorem snap_trials {k : Key2} {s : Sim} (hI : SInvZ k s) (i : Nat) : trialsOf (snapAt s i) k ≠ [] → EverTrials s.hist k := by
  intro hne
  obtain ⟨t, ht⟩ := List.exists_mem_of_ne_nil _ hne
  obtain ⟨h1, h2, h3⟩ := mem_trialsOf.1 ht
  unfold snapAt at h1
  cases h : s.hist[i]? with
  | none => rw [h] at h1; exact ⟨s.hist.size - 1, s.cur, t, hI.2.2, h1, h2, h3⟩
  | some w => rw [h] at h1; exact ⟨i, w, t, h, h1, h2, h3⟩

theorem exec_Z {hs : Array World} {k : Key2} {w0 : World} (f : Faults) (p : Prog) (hp : p.All (ZJust hs k)) (hZ : ZInv hs k w0) :
    ZInv hs k (exec f p w0 0 []).w :=
  exec_preserves (I := ZInv hs k) (P := ZJust hs k) f (fun _ _ _ hI hc happ => apply_pres_Z hI hc happ) p w0 0 [] hp hZ

theorem zinv_view {k : Key2} {s : Sim} (hI : SInvZ k s) (vE vT vS vD : Nat) : ZInv s.hist k (assemble s vE vT vS vD) :=
  zinv_same (w := snapAt s vE) rfl (snap_goodZ hI vE)

theorem stepWorld_okZ {k : Key2} {s : Sim} (hI : SInvZ k s) (op : Op) : ZInv s.hist k (stepWorld s op).1 := by
  have hZ := hI.2.1.1
  cases op with
  | recExp k' vE vT vS f =>
    refine exec_Z f _ (expPlan_zjust s.hist k _ k' s.opIndex (zinv_view hI vE vT vS _) ?_) hZ
    exact snap_trials hI vT
  | recSug k' vS vE vT vD f env => exact exec_Z f _ (sugPlan_zjust s.hist k _ k' env s.opIndex) hZ
  | recTrial k' vT f => exact exec_Z f _ (trialPlan_zjust s.hist k _ k' s.opIndex) hZ
  | job k' ok => simp only [stepWorld]; split <;> first | exact hZ | exact zinv_same rfl hZ
  | metric t text key nm => simp only [stepWorld]; split <;> exact zinv_same rfl hZ
  | earlyStop k' =>
    simp only [stepWorld]
    split
    · exact hZ
    · split <;> first | exact hZ | exact zinv_same rfl hZ
  | deployReady k' => simp only [stepWorld]; split <;> first | exact hZ | exact zinv_same rfl hZ
  | editMax k' n =>
    simp only [stepWorld]
    split
    · exact hZ
    · exact zinv_upd _ _ (fun _ => rfl) (fun _ _ _ he => he) hZ
  | jobGone k' =>
    simp only [stepWorld]
    split
    · exact hZ
    · split <;> first | exact hZ | exact zinv_same rfl hZ
  | userDelete k' =>
    simp only [stepWorld]
    split
    · exact hZ
    · split
      · exact hZ
      · split <;> exact zinv_same rfl hZ
  | noop => exact hZ

theorem step_invZ {k : Key2} {s : Sim} (hI : SInvZ k s) (op : Op) : SInvZ k (step s op).1 := by
  have hW := stepWorld_okZ hI op
  have hK := stepWorld_keys hI.2.1.2 op
  unfold step
  refine ⟨?_, ⟨zinv_push _ hW, hK⟩, ?_⟩
  · intro i h hh
    rw [Array.getElem?_push] at hh
    by_cases hi : i = s.hist.size
    · rw [if_pos hi] at hh; cases hh; exact ⟨zinv_push _ hW, hK⟩
    · rw [if_neg hi] at hh; exact ⟨zinv_push _ (hI.1 i h hh).1, (hI.1 i h hh).2⟩
  · simp only [Array.size_push, Nat.add_sub_cancel]
    rw [Array.getElem?_push, if_pos rfl]

theorem run_invZ {k : Key2} (ops : List Op) : ∀ {s : Sim}, SInvZ k s → SInvZ k (run s ops) := by
  induction ops with
  | nil => intro s h; exact h
  | cons op r ih => intro s h; exact ih (step_invZ h op)

theorem init_invZ (k : Key2) (es : List ExpInit) : SInvZ k (Sim.init es) := by
  have hZ : ZInv (Sim.init es).hist k (Sim.init es).cur := by
    intro e he _
    simp only [Sim.init, List.mem_map] at he
    obtain ⟨ei, _, rfl⟩ := he
    exact Or.inl ⟨rfl, rfl⟩
  have hK : KInv (Sim.init es).cur := by simp [Sim.init, KInv]
  refine ⟨?_, ⟨hZ, hK⟩, by simp [Sim.init]⟩
  intro i h hh
  simp only [Sim.init] at hh
  have : h = (Sim.init es).cur := by
    cases i with
    | zero => simp at hh; exact hh.symm
    | succ j => simp at hh
  rw [this]; exact ⟨hZ, hK⟩

/-- **C04_zero_counters_without_trials**: over every schedule without Trial deletions, an Experiment that has no Trial in the
    current store has zero active and completed counters. -/
theorem C04_zero_counters_without_trials (k : Key2) (es : List ExpInit) (ops : List Op)
    (hopd : ∀ op ∈ ops, ∀ k', op ≠ .userDelete k') :
    let w := (run (Sim.init es) ops).cur
    ∀ e, findExp w k = some e → trialsOf w k = [] → activeCount e.st = 0 ∧ completedCount e.st = 0 := by
  intro w e he hnil
  have hI : SInvZ k (run (Sim.init es) ops) := run_invZ ops (init_invZ k es)
  have hT : SInvT (run (Sim.init es) ops) := run_invT ops (init_invT es) hopd
  rcases hI.2.1.1 e (findExp_mem he) (findExp_key he) with h | ⟨i, h, t, hh, ht, hns, hexp⟩
  · exact h
  · exfalso
    have hfind := findTrial_of_mem (hI.1 i h hh).2 ht
    obtain ⟨tc, h1, _, _, h4, _⟩ := (hT.2 i h hh).2 t.key t hfind
    have hmem : tc ∈ trialsOf w k := by
      rw [mem_trialsOf]
      refine ⟨findTrial_mem h1, ?_, ?_⟩
      · rw [findTrial_key h1]; exact hns
      · rw [← h4]; exact hexp
    rw [hnil] at hmem; cases hmem

/-- **C04_quiescent_verdict_on_schedules_full**: the quiescence theorem with the counters hypothesis discharged as well; what
    remains assumed about the reached store is that the Suggestion is not Succeeded. -/
theorem C04_quiescent_verdict_on_schedules_full (k : Key2) (m : Int) (hm1 : 1 ≤ m) (es : List ExpInit) (ops : List Op)
    (hinit : ∀ e ∈ es, e.key = k → e.maxT = some m)
    (hops : ∀ op ∈ ops, ∀ n, op ≠ .editMax k n) (hopd : ∀ op ∈ ops, ∀ k', op ≠ .userDelete k')
    (now : Nat) (e : ExpO) :
    let w := (run (Sim.init es) ops).cur
    findExp w k = some e → 1 ≤ e.par → e.deleted = false →
    (expPlan w k now).noWrites → (sugPlan w k {} now).noWrites → (∀ t ∈ trialsOf w k, (trialPlan w t.key now).noWrites) →
    (∀ t ∈ trialsOf w k, ∀ j, findJob w t.key = some j → j.state ≠ .running) →
    (∀ t ∈ trialsOf w k, ∀ j, findJob w t.key = some j → j.state = .succeeded →
      (t.push = false → (dbOf w t.key.name).isEmpty = false) ∧
      ((dbOf w t.key.name).isEmpty = false → (Metrics.getMetrics (dbOf w t.key.name) [objMetric]).isSome = true)) →
    (∀ d, findDeploy w (infraKey k) = some d → d.ready = true) →
    (∀ t ∈ trialsOf w k, (!obsAvailable t.st && tHas t .earlyStopped) = false) →
    (∀ s, findSug w k = some s → sHas s .succeeded = false) →
    isCompleted e.st.conds = true := by
  intro w he hpar hdel qE qS qT envJ envM envD nw wfS
  exact C04_quiescent_verdict_on_schedules_names k m hm1 es ops hinit hops hopd now e he hpar hdel qE qS qT envJ envM envD nw wfS
    (C04_zero_counters_without_trials k es ops hopd e he)

end Katib.Ctl
