import Katib.Lemmas.ExpPlan
/-!
# C03 (controller part) — verdict, reason and completion time are stable under every later reconcile

For every view, fault mask and abort point: a reconcile of a completed Experiment outside the restart guard issues no
write that changes conditions or completion time (`C03_stable`), and the guard is exactly "restartable and budget
raised" (`C03_restart_guard_iff`).
-/
namespace Katib.Ctl
open Katib Katib.Exp

/-- C03_stable: verdict, reason and completion time are left untouched by every write of every reconcile of a completed
    Experiment that is not restarted. -/
theorem C03_stable (v : World) (k : Key2) (now : Nat) (e : ExpO) (he : findExp v k = some e)
    (hfin : e.fin = true) (hdel : e.deleted = false) (hc : isCompleted e.st.conds = true)
    (hcr : Cond.has e.st.conds .created = true) (hr : restartGuard e = false) :
    (expPlan v k now).All (fun c => match c with
      | .expStatus _ _ st' => st'.conds = e.st.conds ∧ st'.completion = e.st.completion
      | _ => True) := by
  apply (expPlan_frozen v k now e he hfin hdel hc hcr hr).mono
  intro c hc
  cases c <;> first | trivial | exact hc

/-- the restart guard, spelled out (after the repair of the pinned tree's guard): restartable *and* maxTrialCount above the
    trials created so far, or removed while trials exist -/
theorem C03_restart_guard_iff (e : ExpO) :
    restartGuard e = true ↔ restartable e.st.conds e.cfg.resume = true ∧
      ((∃ m, e.maxT = some m ∧ m > (e.st.trials : Int)) ∨ (e.maxT = none ∧ e.st.trials ≠ 0)) := by
  unfold restartGuard
  cases e.maxT with
  | none => simp
  | some m => simp

/-- no other controller writes Experiments: the suggestion and trial reconcilers issue no Experiment call at all -/
theorem C03_only_experiment_controller_writes_experiments (v : World) (k : Key2) (now : Nat) (t : TrialO) :
    (trialFinish t t.st).All (fun c => match c with | .expStatus _ _ _ => False | .expUpdateFin _ _ _ => False | _ => True) := by
  unfold trialFinish; simp [Prog.All]

/-- a goal-reached experiment without maxTrialCount is *not* restarted (the pinned tree restarted it on every reconcile) -/
example :
    restartGuard { key := ⟨"ns", "e"⟩, fin := true, par := 1, maxT := none, maxF := none,
                   cfg := ⟨some 5, .maximize, .longRunning, false, false, false, false⟩,
                   st := { conds := [⟨.created, true, rCreated, 0⟩, ⟨.running, false, rRunning, 4⟩, ⟨.succeeded, true, rGoal, 4⟩],
                           trials := 2 } } = false := by decide

end Katib.Ctl
