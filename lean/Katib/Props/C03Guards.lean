import Katib.Gen.Guards
import Katib.Model.Reconcile
/-!
# The model's experiment reconcile is the source's, rebuilt from regenerated path conditions

`Katib/Gen/Guards.lean` (regenerated on every run by `kvh extract guards`) holds the conditions under which
`ReconcileExperiment.Reconcile` (pkg/controller.v1beta1/experiment/experiment_controller.go) reaches
`MarkExperimentStatusRestarting`, `cleanupSuggestionResources`, `restartSuggestion`, `ReconcileExperiment` and
`MarkExperimentStatusCreated`, and under which `cleanupSuggestionResources` / `restartSuggestion` go on to change the
Suggestion.  `expPlanGen` puts the model's steps behind exactly these conditions (no call fails, no finalizer update is due);
the hand-written `expPlan` is that function, for every store, key and time.
-/
namespace Katib.Gen
open Katib Katib.Ctl Katib.Exp

def expPlanGen (v : World) (k : Key2) (now : Nat) : Prog :=
  match findExp v k with
  | none => .done .ok
  | some e =>
    -- finalizer: added for a live Experiment without it, removed for one under deletion that holds it (`needUpdateFinalizers`)
    let F (g : Bool → Bool → Bool → Bool → Bool) : Bool := g e.deleted e.fin false false
    if F expAddFinalizerGuard then .step (.expUpdateFin k e.rv true) (.done .requeue) (.done .err)
    else if F expRemoveFinalizerGuard then .step (.expUpdateFin k e.rv false) (.done .requeue) (.done .err)
    else
      let sug := findSug v k
      let G (g : Bool → Bool → Bool → Bool → Bool → Bool → Bool → Bool → Bool → Bool → Bool → Bool → Bool → Bool → Bool → Bool → Bool) : Bool :=
        g false false false (isCompleted e.st.conds) (e.cfg.resume == .never) (e.cfg.resume == .fromVolume)
          (restartable e.st.conds e.cfg.resume) e.maxT.isSome
          (match e.maxT with | some m => decide (m > (e.st.trials : Int)) | none => false) (e.st.trials != 0)
          (cnt e.st.counts 4 != 0) (Cond.has e.st.conds .created) false false false false
      let cleanupBody (next : Prog) : Prog :=
        match sug with
        | none => next
        | some s =>
          if sugCleanupGuard false false (sCompleted s) (sRestarting s) false false false false false then
            .step (.sugStatus k s.rv { s.st with conds := sugMarkSucceeded s.st.conds rSugExpSucceeded now }) next (.done .err)
          else next
      let restartBody (next : Prog) : Prog :=
        match sug with
        | none => next
        | some s =>
          if sugRestartGuard false false false (sRestarting s) false false false then
            .step (.sugStatus k s.rv { s.st with conds := sugMarkRunning s.st.conds false rSugRestart now }) next (.done .err)
          else next
      let st1 : ExpSt := if G markRestartingGuard then { e.st with conds := markRestarting e.st.conds now } else e.st
      let main : Prog := if G callReconcileExperimentGuard || G markCreatedGuard then expMain v e st1 now else .done .ok
      let r : Prog := if G callRestartGuard then restartBody main else main
      if G callCleanupGuard then cleanupBody r else r

/-- the translator met only conditions it knows and exactly one call site each -/
theorem C03_reconcile_guards_known :
    markRestartingGuardUnknown = [] ∧ callCleanupGuardUnknown = [] ∧ callRestartGuardUnknown = [] ∧
    callReconcileExperimentGuardUnknown = [] ∧ markCreatedGuardUnknown = [] ∧
    markRestartingGuardSites = 1 ∧ callCleanupGuardSites = 1 ∧ callRestartGuardSites = 1 ∧
    callReconcileExperimentGuardSites = 1 ∧ markCreatedGuardSites = 1 ∧
    expAddFinalizerGuardUnknown = [] ∧ expRemoveFinalizerGuardUnknown = [] ∧ expCallUpdateFinalizersGuardUnknown = [] ∧
    expAddFinalizerGuardSites = 1 ∧ expRemoveFinalizerGuardSites = 1 ∧ expCallUpdateFinalizersGuardSites = 1 := by decide

set_option linter.unusedSimpArgs false in
set_option maxRecDepth 4000 in
set_option maxHeartbeats 4000000 in
/-- **C03_reconcile_is_source** -/
theorem C03_reconcile_is_source (v : World) (k : Key2) (now : Nat) : expPlan v k now = expPlanGen v k now := by
  unfold expPlan expPlanGen
  cases hfe : findExp v k with
  | none => rfl
  | some e =>
    simp only []
    have hA : expAddFinalizerGuard e.deleted e.fin false false = (!e.deleted && !e.fin) := by
      unfold expAddFinalizerGuard; cases e.deleted <;> cases e.fin <;> rfl
    have hR : (expAddFinalizerGuard e.deleted e.fin false false = false) →
        expRemoveFinalizerGuard e.deleted e.fin false false = (e.deleted && e.fin) := by
      unfold expAddFinalizerGuard expRemoveFinalizerGuard; cases e.deleted <;> cases e.fin <;> simp
    rw [hA]
    by_cases h1 : (!e.deleted && !e.fin) = true
    · simp only [h1, if_true]
    · simp only [h1, if_false]
      rw [hR (by rw [hA]; simpa using h1)]
      by_cases h2 : (e.deleted && e.fin) = true
      · simp only [h2, if_true]
      · simp only [h2, if_false]
        unfold markRestartingGuard callReconcileExperimentGuard markCreatedGuard callRestartGuard callCleanupGuard
          sugCleanupGuard sugRestartGuard restartGuard
        cases hm : e.maxT with
        | none =>
          cases hsug : findSug v k with
          | none =>
            by_cases ht : e.st.trials = 0 <;>
            (cases hc : isCompleted e.st.conds <;> cases hr : restartable e.st.conds e.cfg.resume <;> cases hres : e.cfg.resume <;>
              cases hcr : Cond.has e.st.conds .created <;> cases hrun : (cnt e.st.counts 4 == 0) <;>
              simp [hc, hr, hres, hcr, hrun, hm, hsug, bne, ht])
          | some s =>
            by_cases ht : e.st.trials = 0 <;> cases hsc : sCompleted s <;> cases hsr : sRestarting s <;>
            (cases hc : isCompleted e.st.conds <;> cases hr : restartable e.st.conds e.cfg.resume <;> cases hres : e.cfg.resume <;>
              cases hcr : Cond.has e.st.conds .created <;> cases hrun : (cnt e.st.counts 4 == 0) <;>
              simp [hc, hr, hres, hcr, hrun, hm, hsug, bne, ht, hsc, hsr])
        | some m =>
          cases hsug : findSug v k with
          | none =>
            by_cases hgt : m > (e.st.trials : Int) <;>
            (cases hc : isCompleted e.st.conds <;> cases hr : restartable e.st.conds e.cfg.resume <;> cases hres : e.cfg.resume <;>
              cases hcr : Cond.has e.st.conds .created <;> cases hrun : (cnt e.st.counts 4 == 0) <;>
              simp [hc, hr, hres, hcr, hrun, hm, hsug, bne, hgt])
          | some s =>
            by_cases hgt : m > (e.st.trials : Int) <;> cases hsc : sCompleted s <;> cases hsr : sRestarting s <;>
            (cases hc : isCompleted e.st.conds <;> cases hr : restartable e.st.conds e.cfg.resume <;> cases hres : e.cfg.resume <;>
              cases hcr : Cond.has e.st.conds .created <;> cases hrun : (cnt e.st.counts 4 == 0) <;>
              simp [hc, hr, hres, hcr, hrun, hm, hsug, bne, hgt, hsc, hsr])

/-! ## `ReconcileExperiment` and `ReconcileTrials` -/

def expReconcileTrialsGen (v : World) (e : ExpO) (st : ExpSt) (ts : List TrialO) (now : Nat) : Prog :=
  let G (g : Bool → Bool → Bool → Bool → Bool → Bool → Bool → Bool → Bool → Bool → Bool → Bool) : Bool :=
    g false (!ts.isEmpty) (isCompleted st.conds) (decide (activeCount st > e.par)) (decide (activeCount st < e.par))
      (decide (activeCount st > e.par)) (decide (addCount e st > 0)) false e.maxT.isSome false false
  if G callDeleteTrialsGuard then .done .err          -- deleteTrials: not modelled further (DESIGN §10)
  else if G callCreateTrialsGuard then expCreateTrials v e st ts (addCount e st) now
  else expFinish e st

def expMainGen (v : World) (e : ExpO) (st : ExpSt) (now : Nat) : Prog :=
  if !Cond.has st.conds .created then
    expFinish e { st with started := true, conds := Cond.set st.conds .created true rCreated now }
  else
    let ts := trialsOf v e.key
    let G (completed : Bool) (g : Bool → Bool → Bool → Bool → Bool → Bool → Bool → Bool → Bool → Bool → Bool → Bool) : Bool :=
      g false (!ts.isEmpty) completed false false false false false e.maxT.isSome false false
    let st1 := if G false callUpdateStatusGuard then expUpdateStatus e st ts now else st
    if G (isCompleted st1.conds) callReconcileTrialsGuard then expReconcileTrialsGen v e st1 ts now else expFinish e st1

theorem C01_guards_known :
    callUpdateStatusGuardUnknown = [] ∧ callReconcileTrialsGuardUnknown = [] ∧ callDeleteTrialsGuardUnknown = [] ∧
    callCreateTrialsGuardUnknown = [] ∧ callUpdateStatusGuardSites = 1 ∧ callReconcileTrialsGuardSites = 1 ∧
    callDeleteTrialsGuardSites = 1 ∧ callCreateTrialsGuardSites = 1 := by decide

set_option linter.unusedSimpArgs false in
/-- **C01_reconcile_trials_is_source**: the model's `ReconcileTrials` decision (delete / create / nothing) is the source's -/
theorem C01_reconcile_trials_is_source (v : World) (e : ExpO) (st : ExpSt) (ts : List TrialO) (now : Nat) :
    expReconcileTrials v e st ts now = expReconcileTrialsGen v e st ts now := by
  unfold expReconcileTrials expReconcileTrialsGen callDeleteTrialsGuard callCreateTrialsGuard
  by_cases h1 : activeCount st > e.par <;> by_cases h2 : activeCount st < e.par <;> by_cases h3 : addCount e st > 0 <;>
    simp [h1, h2, h3]

set_option linter.unusedSimpArgs false in
/-- **C01_reconcile_experiment_is_source**: the model's `ReconcileExperiment` (status refresh only for a non-empty Trial list,
    Trials reconciled only while there is no verdict) is the source's -/
theorem C01_reconcile_experiment_is_source (v : World) (e : ExpO) (st : ExpSt) (now : Nat) :
    expMain v e st now = expMainGen v e st now := by
  unfold expMain expMainGen callUpdateStatusGuard callReconcileTrialsGuard
  simp only [C01_reconcile_trials_is_source]
  cases hcr : Cond.has st.conds .created
  · simp [hcr]
  · cases hts : (trialsOf v e.key).isEmpty
    · simp only [hcr, hts, Bool.not_true, Bool.not_false, Bool.false_eq_true, Bool.true_and, Bool.and_true, if_false, if_true]
      cases hc : isCompleted (expUpdateStatus e st (trialsOf v e.key) now).conds <;> simp [hc]
    · simp only [hcr, hts, Bool.not_true, Bool.not_false, Bool.false_eq_true, Bool.true_and, Bool.and_true, Bool.and_false, if_false, if_true]
      cases hc : isCompleted st.conds <;> simp [hc]


/-! ## `ReconcileSuggestions` (inside `createTrials`) -/

def expCreateTrialsGen (v : World) (e : ExpO) (st : ExpSt) (ts : List TrialO) (add : Int) (now : Nat) : Prog :=
  let current : Int := ts.length
  let ies : Int := (ts.filter (fun t => !obsAvailable t.st && tHas t .earlyStopped)).length
  let req := current + add - ies
  match findSug v e.key with
  | none =>
    .step (.sugCreate { key := e.key, requests := req, resume := e.cfg.resume, es := e.cfg.es }) (expFinish e st) (.done .err)
  | some s =>
    let G (g : Bool → Bool → Bool → Bool → Bool → Bool → Bool → Bool → Bool) : Bool :=
      g false false true (sHas s .failed) (decide (s.requests ≠ req)) (decide ((s.st.names.length : Int) > current)) false false
    if G markExpFailedBySugGuard then expFinish e { st with conds := markFailed st.conds rFailed now }
    else
      let assignments := if (s.st.names.length : Int) > current
        then s.st.names.filter (fun n => !(ts.any (fun t => t.key.name = n))) else []
      let creates := assignments.foldr (fun a k => Prog.step (.trialCreate (mkTrial e a)) k k) (expFinish e st)
      if G callUpdateSuggestionGuard then .step (.sugUpdateReq e.key s.rv req) creates (.done .err) else creates

theorem C01_reconcile_suggestions_guards_known :
    markExpFailedBySugGuardUnknown = [] ∧ callUpdateSuggestionGuardUnknown = [] ∧
    markExpFailedBySugGuardSites = 1 ∧ callUpdateSuggestionGuardSites = 1 := by decide

set_option linter.unusedSimpArgs false in
/-- **C01_reconcile_suggestions_is_source**: a failed Suggestion fails the Experiment, otherwise `spec.requests` is rewritten
    exactly when it differs from the number wanted -/
theorem C01_reconcile_suggestions_is_source (v : World) (e : ExpO) (st : ExpSt) (ts : List TrialO) (add : Int) (now : Nat) :
    expCreateTrials v e st ts add now = expCreateTrialsGen v e st ts add now := by
  unfold expCreateTrials expCreateTrialsGen markExpFailedBySugGuard callUpdateSuggestionGuard
  cases hs : findSug v e.key with
  | none => rfl
  | some s =>
    simp only []
    cases hf : sHas s .failed <;>
      by_cases hr : s.requests ≠ (ts.length : Int) + add - ((ts.filter (fun t => !obsAvailable t.st && tHas t .earlyStopped)).length : Int) <;>
      simp [hf, hr]


end Katib.Gen
