import Katib.Gen.Guards
import Katib.Model.Sidecar
/-!
# C12: the model's `Mutate` takes the full-mutation path exactly under the source's path condition

`Katib/Gen/Guards.lean` (regenerated on every run by `kvh extract guards`) holds the condition under which
`SidecarInjector.Mutate` (pkg/webhook/v1beta1/pod/inject_webhook.go) goes on to build the collector container, and those
under which it then mounts the metrics volume and wraps the training command.
-/
namespace Katib.Gen
open Katib Katib.Pod

theorem C12_mutate_guards_known :
    callCollectorContainerGuardUnknown = [] ∧ callWrapWorkerGuardUnknown = [] ∧ callMetricsVolumeGuardUnknown = [] ∧
    callCollectorContainerGuardSites = 1 ∧ callWrapWorkerGuardSites = 1 ∧ callMetricsVolumeGuardSites = 1 := by decide

/-- the generated guards for a pod / trial pair when no call fails -/
def podG (pod : PodS) (t : Trial)
    (g : Bool → Bool → Bool → Bool → Bool → Bool → Bool → Bool → Bool → Bool → Bool → Bool → Bool → Bool → Bool) : Bool :=
  g false false false false false false t.primaryPodLabels.isSome (!nonPrimary pod t) (decide (t.kind = .push))
    (!hasContainer pod.containers t.primaryContainer) (decide (t.mountPath ≠ "")) (needWrap t.kind) false false

def mutateGen (pod : PodS) (t : Trial) (e : Env) : Except Err PodS :=
  if podG pod t callCollectorContainerGuard then
    match collectorContainer t e with
    | .error x => .error x
    | .ok col =>
      if !e.experimentExists then .error .noExperiment
      else match e.suggestion with
      | none => .error .noSuggestion
      | some (_, checkpoint) => .ok (assemble pod t col checkpoint)
  else if nonPrimary pod t || decide (t.kind = .push) then .ok (lightPod pod t)
  else .error .noPrimaryContainer

set_option linter.unusedSimpArgs false in
/-- **C12_mutate_is_source**: the collector container is built (and the full mutation follows) exactly when the pod is the
    primary pod, the collector is not Push and the primary container exists -/
theorem C12_mutate_is_source (pod : PodS) (t : Trial) (e : Env) : mutate pod t e = mutateGen pod t e := by
  unfold mutate mutateGen podG callCollectorContainerGuard nonPrimary
  cases hl : t.primaryPodLabels <;> by_cases hp : t.kind = .push <;> cases hc : hasContainer pod.containers t.primaryContainer <;>
    simp [hl, hp, hc] <;> (try (rename_i pl; cases hq : isPrimaryPod pod.labels pl <;> simp [hq])) <;>
    (cases hcc : collectorContainer t e <;> (try rfl) <;> cases hx : e.experimentExists <;> cases hsu : e.suggestion <;> rfl)

/-- within the full mutation: the metrics volume is mounted exactly for a non-empty mount path, the training command wrapped
    exactly for the collector kinds that need it — the tests `assemble` makes -/
theorem C12_volume_wrap_guards_are_source (pod : PodS) (t : Trial) (h : podG pod t callCollectorContainerGuard = true) :
    podG pod t callMetricsVolumeGuard = decide (t.mountPath ≠ "") ∧ podG pod t callWrapWorkerGuard = needWrap t.kind := by
  unfold podG callCollectorContainerGuard at h
  unfold podG callMetricsVolumeGuard callWrapWorkerGuard
  cases hl : t.primaryPodLabels.isSome <;> cases hn : nonPrimary pod t <;> cases hp : decide (t.kind = .push) <;>
    cases hc : hasContainer pod.containers t.primaryContainer <;> simp [hl, hn, hp, hc] at h ⊢

/-! ## `getMetricsCollectorArgs` -/

theorem C12_args_guards_known :
    argPathGuardUnknown = [] ∧ argFilterGuardUnknown = [] ∧ argFileFormatGuardUnknown = [] ∧ argStdoutFormatGuardUnknown = [] ∧
    argWaitGuardUnknown = [] ∧ argStopRuleGuardUnknown = [] ∧ errNoSuggestionGuardUnknown = [] ∧ argEarlyStopGuardUnknown = [] ∧
    argPathGuardSites = 1 ∧ argFilterGuardSites = 1 ∧ argFileFormatGuardSites = 1 ∧ argStdoutFormatGuardSites = 1 ∧
    argWaitGuardSites = 1 ∧ argStopRuleGuardSites = 1 ∧ errNoSuggestionGuardSites = 1 ∧ argEarlyStopGuardSites = 1 := by decide

/-- the generated guards on a trial's collector spec.  `src fil fmts fsp` are the nil tests the model folds into `filters`
    (non-empty exactly when source, filter and formats are all there) and `fileFormat` (`some` exactly for a File collector
    whose source and file-system path are set) -/
def argsG (t : Trial) (e : Env) (src fil fmts fsp : Bool)
    (g : Bool → Bool → Bool → Bool → Bool → Bool → Bool → Bool → Bool → Bool → Bool → Bool) : Bool :=
  g (decide (t.mountPath ≠ "")) src fil fmts (decide (t.kind = .file)) fsp (decide (t.kind = .stdOut)) e.waitAll.isSome
    (!(t.rules.getD []).isEmpty) e.suggestion.isNone false

def collectorArgsGen (t : Trial) (e : Env) (src fil fmts fsp : Bool) : Except Err (List String) :=
  let G := argsG t e src fil fmts fsp
  if G errNoSuggestionGuard then .error .noSuggestion
  else .ok (["-t", t.name, "-m", t.metricNames, "-o-type", t.objType, "-s-db", e.dbAddr] ++
    (if G argPathGuard then ["-path", t.mountPath] else []) ++
    (if G argFilterGuard then ["-f", ";".intercalate t.filters] else []) ++
    (if G argFileFormatGuard then ["-format", t.fileFormat.getD ""] else []) ++
    (if G argStdoutFormatGuard then ["-format", "TEXT"] else []) ++
    (if G argWaitGuard then ["-w", if e.waitAll.getD false then "true" else "false"] else []) ++
    (if G argStopRuleGuard then (t.rules.getD []).flatMap (fun r => ["-stop-rule", r]) else []) ++
    (if G argEarlyStopGuard then ["-s-earlystop", (e.suggestion.map (·.1)).getD ""] else []))

set_option linter.unusedSimpArgs false in
/-- **C12_args_are_source**: every optional flag of the collector's command line is added under the source's condition, in the
    source's order; the Suggestion lookup (and its error) happens exactly when there are early-stopping rules -/
theorem C12_args_are_source (t : Trial) (e : Env) (src fil fmts fsp : Bool)
    (hf : (!t.filters.isEmpty) = (src && fil && fmts))
    (hff : t.kind = .file → t.fileFormat.isSome = (src && fsp)) :
    collectorArgs t e = collectorArgsGen t e src fil fmts fsp := by
  unfold collectorArgs collectorArgsGen argsG errNoSuggestionGuard argPathGuard argFilterGuard argFileFormatGuard
    argStdoutFormatGuard argWaitGuard argStopRuleGuard argEarlyStopGuard
  have h2 : (if t.filters.isEmpty = true then ([] : List String) else ["-f", ";".intercalate t.filters]) =
      (if ((src && fil) && fmts) = true then ["-f", ";".intercalate t.filters] else []) := by
    rw [← hf]; cases t.filters.isEmpty <;> simp
  have h3 : (match t.kind, t.fileFormat with | .file, some f => ["-format", f] | _, _ => ([] : List String)) =
      (if (t.kind = .file ∧ src = true) ∧ fsp = true then ["-format", t.fileFormat.getD ""] else []) := by
    by_cases hk : t.kind = .file
    · have h := hff hk
      cases hfm : t.fileFormat <;> simp [hk, hfm] at h ⊢ <;> (try simp [h]) <;> (try (cases src <;> cases fsp <;> simp_all))
    · cases hkk : t.kind <;> simp_all
  simp only [h2]
  cases hr : (t.rules.getD []).isEmpty <;> cases hs : e.suggestion <;> cases hw : e.waitAll <;> simp [hr, hs, hw] <;>
    (try exact h3)

/-- the two hypotheses of `C12_args_are_source` only name how the model's `filters` / `fileFormat` fold the source's nil tests:
    for every trial there are nil-test outcomes that meet them -/
theorem C12_args_hypotheses_satisfiable (t : Trial) :
    ∃ src fil fmts fsp : Bool, (!t.filters.isEmpty) = (src && fil && fmts) ∧ (t.kind = .file → t.fileFormat.isSome = (src && fsp)) :=
  ⟨true, !t.filters.isEmpty, true, t.fileFormat.isSome, by simp, by simp⟩

end Katib.Gen
