import Katib.Gen.Guards
import Katib.Model.Sidecar
/-!
# C12: the model's `Mutate` takes the full-mutation path exactly under the source's path condition

`Katib/Gen/Guards.lean` (regenerated on every run by `kvh extract guards`) holds the condition under which
`SidecarInjector.Mutate` (pkg/webhook/v1beta1/pod/inject_webhook.go) goes on to build the collector container, and those
under which it then mounts the metrics volume and wraps the training command.
-/
namespace Katib.Gen
open Katib Katib.Pod

theorem C12_mutate_guards_known :
    callCollectorContainerGuardUnknown = [] ∧ callWrapWorkerGuardUnknown = [] ∧ callMetricsVolumeGuardUnknown = [] ∧
    callCollectorContainerGuardSites = 1 ∧ callWrapWorkerGuardSites = 1 ∧ callMetricsVolumeGuardSites = 1 := by decide

/-- the generated guards for a pod / trial pair when no call fails -/
def podG (pod : PodS) (t : Trial)
    (g : Bool → Bool → Bool → Bool → Bool → Bool → Bool → Bool → Bool → Bool → Bool → Bool → Bool → Bool → Bool) : Bool :=
  g false false false false false false t.primaryPodLabels.isSome (!nonPrimary pod t) (decide (t.kind = .push))
    (!hasContainer pod.containers t.primaryContainer) (decide (t.mountPath ≠ "")) (needWrap t.kind) false false

def mutateGen (pod : PodS) (t : Trial) (e : Env) : Except Err PodS :=
  if podG pod t callCollectorContainerGuard then
    match collectorContainer t e with
    | .error x => .error x
    | .ok col =>
      if !e.experimentExists then .error .noExperiment
      else match e.suggestion with
      | none => .error .noSuggestion
      | some (_, checkpoint) => .ok (assemble pod t col checkpoint)
  else if nonPrimary pod t || decide (t.kind = .push) then .ok (lightPod pod t)
  else .error .noPrimaryContainer

set_option linter.unusedSimpArgs false in
/-- **C12_mutate_is_source**: the collector container is built (and the full mutation follows) exactly when the pod is the
    primary pod, the collector is not Push and the primary container exists -/
theorem C12_mutate_is_source (pod : PodS) (t : Trial) (e : Env) : mutate pod t e = mutateGen pod t e := by
  unfold mutate mutateGen podG callCollectorContainerGuard nonPrimary
  cases hl : t.primaryPodLabels <;> by_cases hp : t.kind = .push <;> cases hc : hasContainer pod.containers t.primaryContainer <;>
    simp [hl, hp, hc] <;> (try (rename_i pl; cases hq : isPrimaryPod pod.labels pl <;> simp [hq])) <;>
    (cases hcc : collectorContainer t e <;> (try rfl) <;> cases hx : e.experimentExists <;> cases hsu : e.suggestion <;> rfl)

/-- within the full mutation: the metrics volume is mounted exactly for a non-empty mount path, the training command wrapped
    exactly for the collector kinds that need it — the tests `assemble` makes -/
theorem C12_volume_wrap_guards_are_source (pod : PodS) (t : Trial) (h : podG pod t callCollectorContainerGuard = true) :
    podG pod t callMetricsVolumeGuard = decide (t.mountPath ≠ "") ∧ podG pod t callWrapWorkerGuard = needWrap t.kind := by
  unfold podG callCollectorContainerGuard at h
  unfold podG callMetricsVolumeGuard callWrapWorkerGuard
  cases hl : t.primaryPodLabels.isSome <;> cases hn : nonPrimary pod t <;> cases hp : decide (t.kind = .push) <;>
    cases hc : hasContainer pod.containers t.primaryContainer <;> simp [hl, hn, hp, hc] at h ⊢

end Katib.Gen
