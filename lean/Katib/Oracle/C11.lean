import Katib.Model.Metrics
/-! Executable oracle for C11: judges an *observed* output (implementation or model) against the property. -/
namespace Katib.Metrics

/-- observed summary record: name, min, max, latest (texts) -/
structure Obs where
  name : String
  min : String
  max : String
  latest : String

def ownOf (n : String) (es : List Entry) : List Entry := es.filter (fun e => e.metric = n)

def keyLe (a b : Option Int) : Bool :=
  match a, b with
  | some x, some y => decide (x ≤ y)
  | _, _ => true

/-- `x` is the text of some keyed entry whose key is ≤ (resp. ≥) every reported key; `unavailable` iff none keyed -/
def extOk (l : List Entry) (x : String) (isMin : Bool) : Bool :=
  if l.all (fun e => e.key.isNone) then x == unavailable
  else l.any (fun e => e.text == x && e.key.isSome &&
        l.all (fun e' => if isMin then keyLe e.key e'.key else keyLe e'.key e.key))

/-- right-to-left scan: the last entry among those with the greatest timestamp -/
def specLatest : List Entry → Option (String × Int)
  | [] => none
  | e :: l =>
    match specLatest l, e.ts with
    | some (x, t), some te => if t < te then some (e.text, te) else some (x, t)
    | some r, none => some r
    | none, some te => some (e.text, te)
    | none, none => none

def latestOk (l : List Entry) (x : String) : Bool :=
  match l with
  | [] => x == unavailable
  | _ => match specLatest l with
    | some (y, _) => x == y
    | none => false

def dedup (l : List String) : List String := l.eraseDups

def sameSet (a b : List String) : Bool := a.all (b.contains ·) && b.all (a.contains ·) && a.length == b.length

/-- the property, as a Bool, on an observed outcome (`none` = error return) -/
def oracleC11 (es : List Entry) (s : List String) (out : Option (List Obs)) : Bool :=
  let bad := es.any (fun e => s.contains e.metric && e.ts.isNone)
  match out with
  | none => bad
  | some obs =>
    !bad && sameSet (obs.map (·.name)) (dedup s) &&
    obs.all (fun o =>
      let l := ownOf o.name es
      extOk l o.min true && extOk l o.max false && latestOk l o.latest)

end Katib.Metrics
