import Katib.Model.ExpStatus
/-! Executable oracles for C05 and C03 (pure part): judge an observed status against the property. -/
namespace Katib.Exp

structure ObsStatus where
  trials : Nat
  lists : Lists
  counters : List Nat          -- K F S E R M P
  best : Option String
  payloadOk : Bool
  conds : List ECond
  completion : String          -- none | old | new

def insertS (x : String) : List String → List String
  | [] => [x]
  | y :: ys => if x ≤ y then x :: y :: ys else y :: insertS x ys
def sortS (l : List String) : List String := l.foldr insertS []

def classList : List Class := [.killed, .failed, .succeeded, .earlyStopped, .running, .metricsUnavailable, .pending]

def availB (t : TrialV) : Bool := (objectiveOf t).1 != unavailable

/-- in the property's scope: every available objective text is numeric, objective type is minimize/maximize -/
def inScope (o : Objective) (ts : List TrialV) : Bool :=
  o.ty != .other && ts.all (fun t => !availB t || (objectiveOf t).2.isSome)

def beats (o : Objective) (a b : Int) : Bool :=   -- a strictly better than b
  match o.ty with | .minimize => decide (a < b) | .maximize => decide (b < a) | .other => false

def meetsGoal (o : Objective) (v : Int) : Bool :=
  match o.ty, o.goal with
  | .minimize, some g => decide (v ≤ g)
  | .maximize, some g => decide (g ≤ v)
  | _, _ => false

def specGoalReached (o : Objective) (ts : List TrialV) : Bool :=
  ts.any (fun t => availB t && match (objectiveOf t).2 with | some v => meetsGoal o v | none => false)

def oracleC05 (o : Objective) (ts : List TrialV) (out : ObsStatus) : String :=
  let listsOk := classList.all (fun c =>
    sortS (out.lists.get c) == sortS ((ts.filter (fun t => classify t = c)).map (·.name)))
  let countersOk := out.counters == classList.map (fun c => (out.lists.get c).length) &&
    out.trials == out.counters.foldl (· + ·) 0 && out.trials == ts.length
  if !listsOk then "fail trial-lists-do-not-partition-the-trials-by-condition"
  else if !countersOk then "fail counters-differ-from-list-lengths"
  else if !out.payloadOk then "fail optimal-trial-payload-not-that-trials"
  else if !inScope o ts then "pass"
  else if ts.all (fun t => !availB t) then "pass"
  else match out.best with
    | none => "fail no-optimal-trial-although-an-objective-value-is-available"
    | some n =>
      match ts.find? (fun t => t.name == n) with
      | none => "fail optimal-trial-is-not-a-trial"
      | some b =>
        match availB b, (objectiveOf b).2 with
        | true, some v =>
          if ts.all (fun t => !availB t || match (objectiveOf t).2 with | some v' => !beats o v' v | none => true)
          then "pass" else "fail optimal-trial-is-not-the-extremum"
        | _, _ => "fail optimal-trial-has-no-available-objective-value"

def oracleC03 (o : Objective) (b : Budget) (ts : List TrialV) (pre : Status) (out : ObsStatus) : String :=
  let strip (cs : List ECond) := cs.map (fun c => (c.ty, c.st, c.reason))
  if isCompleted pre.conds then
    if strip out.conds == strip pre.conds && out.completion == (if pre.completion.isSome then "old" else "none")
    then "pass" else "fail completed-experiment-verdict-or-completion-time-changed"
  else if !inScope o ts then "skip"
  else
    let cnt (c : Class) : Int := ((ts.filter (fun t => classify t = c)).length : Nat)
    let counts : Counts := ⟨cnt .succeeded, cnt .failed, cnt .killed, cnt .earlyStopped, cnt .metricsUnavailable,
      cnt .pending, cnt .running⟩
    let goal := specGoalReached o ts
    let want : Option (Bool × String) :=     -- (succeeded?, reason)
      if goal then some (true, rGoal)
      else if failRule b counts then some (false, rFailed)
      else if maxRule b counts then some (true, rMaxTrials)
      else none
    let succ := isSucceeded out.conds
    let fail := isFailed out.conds
    if succ && fail then "fail succeeded-and-failed-both-true"
    else match want with
      | some (true, r) =>
        if !succ then "fail succeeded-verdict-missing"
        else if Cond.reasonOf out.conds .succeeded != some r then "fail wrong-success-reason"
        else if Cond.has out.conds .running then "fail running-true-with-verdict"
        else if out.completion != "new" then "fail completion-time-not-set"
        else "pass"
      | some (false, r) =>
        if !fail then "fail failed-verdict-missing"
        else if Cond.reasonOf out.conds .failed != some r then "fail wrong-failure-reason"
        else if Cond.has out.conds .running then "fail running-true-with-verdict"
        else if out.completion != "new" then "fail completion-time-not-set"
        else "pass"
      | none =>
        if succ || fail then "fail verdict-without-rule"
        else if out.completion != (if pre.completion.isSome then "old" else "none") then "fail completion-time-touched-without-verdict"
        else "pass"

end Katib.Exp
