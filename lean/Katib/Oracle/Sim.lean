import Katib.Model.Sim
/-!
# Executable oracles for the controller properties (C01, C03, C04, C06, C07, C08, C09, C16)

They judge the *observed* store after every op of a schedule (and the op's write log), carrying a small
history (`OSt`).  Each returns `pass`, `fail <what>` or `known <finding-id>`.
-/
namespace Katib.Ctl
open Katib Katib.Exp

structure VerdictRec where
  kind : String        -- "Succeeded" / "Failed"
  reason : String
  completion : Option Nat
  deriving Repr, DecidableEq

structure OSt where
  cfgs : List ExpInit := []
  prev : World := {}
  ever : List (Key2 × List String) := []          -- trial names ever observed, per experiment
  verdicts : List (Key2 × VerdictRec) := []
  raised : List Key2 := []                         -- experiments whose budget was raised since their verdict
  jobCreates : List (Key2 × Nat) := []
  jobGoneExt : List Key2 := []                     -- run objects that disappeared without a controller delete (TTL, user clean-up)
  maxReq : List (Key2 × Int) := []
  quiesce : Option Key2 := none
  quiesceWrites : Nat := 0
  settledRounds : Nat := 0
  deriving Repr

def cfgOf (o : OSt) (k : Key2) : Option ExpInit := o.cfgs.find? (fun c => c.key = k)

def lookup {β : Type} (l : List (Key2 × β)) (k : Key2) : Option β := (l.find? (fun p => p.1 = k)).map (·.2)
def upsert {β : Type} (l : List (Key2 × β)) (k : Key2) (v : β) : List (Key2 × β) :=
  if l.any (fun p => p.1 = k) then l.map (fun p => if p.1 = k then (k, v) else p) else l ++ [(k, v)]

def verdictOf (e : ExpO) : Option VerdictRec :=
  if isSucceeded e.st.conds then some { kind := "Succeeded", reason := (Cond.reasonOf e.st.conds .succeeded).getD "", completion := e.st.completion }
  else if isFailed e.st.conds then some { kind := "Failed", reason := (Cond.reasonOf e.st.conds .failed).getD "", completion := e.st.completion }
  else none

def ownTrials (w : World) (k : Key2) : List TrialO := w.trials.filter (fun t => t.key.ns = k.ns ∧ t.exp = k.name)

/-- the ok-writes of a log (`kind.verb.ns/name:ok`) of a given kind.verb -/
def okWrites (log : List String) (pfx : String) : List String :=
  log.filterMap (fun l => if l.startsWith pfx && l.endsWith ":ok" then some ((l.drop pfx.length).toString.dropEnd 3).toString else none)

def parseK2 (s : String) : Key2 :=
  match s.splitOn "/" with
  | [a, b] => { ns := a, name := b }
  | _ => { ns := "", name := s }

inductive OpKind | init | recExp (k : Key2) | recSug (k : Key2) (viewsLive : Bool) (trialsLive : Bool := false) | recTrial (k : Key2) (viewLive : Bool) | editMax (k : Key2)
  | quiesceBegin (k : Key2) | quiesceEnd (k : Key2) | env
  deriving Repr

/-- state update shared by all oracles (done after judging) -/
def OSt.advance (o : OSt) (op : OpKind) (log : List String) (cur : World) : OSt :=
  let ever := cur.exps.foldl (fun acc e =>
    let old := (lookup acc e.key).getD []
    let names := (ownTrials cur e.key).map (·.key.name)
    upsert acc e.key (old ++ names.filter (fun n => !old.contains n))) o.ever
  let verdicts := cur.exps.foldl (fun acc e =>
    match verdictOf e with
    | some v => upsert acc e.key v
    | none => acc.filter (fun p => ¬ p.1 = e.key)) o.verdicts
  let raised := match op with
    | .editMax k => if o.raised.contains k then o.raised else o.raised ++ [k]
    | _ => o.raised.filter (fun k => match findExp cur k with
        | some e => (verdictOf e).isSome      -- a raise is consumed once the verdict has been withdrawn
        | none => false)
  let jobCreates := (okWrites log "job.create.").foldl (fun acc s =>
    let k := parseK2 s
    upsert acc k ((lookup acc k).getD 0 + 1)) o.jobCreates
  let deletedNow := (okWrites log "job.delete.").map parseK2
  let jobGoneExt := o.jobGoneExt ++ ((o.prev.jobs.map (·.key)).filter (fun k => (findJob cur k).isNone && !deletedNow.contains k && !o.jobGoneExt.contains k))
  let maxReq := cur.sugs.foldl (fun acc s =>
    let m := (lookup acc s.key).getD 0
    upsert acc s.key (if s.requests > m then s.requests else m)) o.maxReq
  let writes := (log.filter (fun l => !l.startsWith "db.get" && !l.startsWith "rpc.validate")).length
  let (q, qw) := match op with
    | .quiesceBegin k => (some k, 0)
    | .quiesceEnd _ => (none, 0)
    | _ => (o.quiesce, o.quiesceWrites + writes)
  { o with prev := cur, ever, verdicts, raised, jobCreates, jobGoneExt, maxReq, quiesce := q, quiesceWrites := qw }

/-! ## C01 -/
def oracleC01 (o : OSt) (_op : OpKind) (_log : List String) (cur : World) : String :=
  let bad := cur.exps.filterMap (fun e =>
    let names := (ownTrials cur e.key).map (·.key.name)
    let old := (lookup o.ever e.key).getD []
    let ever := old ++ names.filter (fun n => !old.contains n)
    let active := ((ownTrials cur e.key).filter (fun t => !tCompleted t)).length
    let raisedNow := o.raised.contains e.key
    match e.maxT with
    | some m =>
      if (ever.length : Int) > m then some s!"fail more-trials-than-maxTrialCount {e.key.name} ever={ever.length} max={m}"
      else if (active : Int) > e.par then some s!"fail more-active-trials-than-parallelTrialCount {e.key.name} active={active}"
      else if (lookup o.verdicts e.key).isSome && (verdictOf e).isSome && ever.length > old.length && !raisedNow then
        some s!"fail trial-created-after-verdict {e.key.name}"
      else none
    | none =>
      if (active : Int) > e.par then some s!"fail more-active-trials-than-parallelTrialCount {e.key.name} active={active}"
      else if (lookup o.verdicts e.key).isSome && (verdictOf e).isSome && ever.length > old.length && !raisedNow then
        some s!"fail trial-created-after-verdict {e.key.name}"
      else none)
  bad.headD "pass"

/-! ## C03 (sequences) -/
def oracleC03seq (o : OSt) (op : OpKind) (_log : List String) (cur : World) : String :=
  -- at quiescence a restartable Experiment that is Succeeded by the max-trials rule has used its whole (possibly raised) budget
  let staleVerdict : Option String := match op with
    | .quiesceEnd k =>
      (match findExp cur k with
       | some e =>
         (match e.maxT with
          | some m =>
            let done := ((ownTrials cur k).filter tCompleted).length
            if isSucceeded e.st.conds && Cond.reasonOf e.st.conds .succeeded == some rMaxTrials &&
               (e.cfg.resume == .longRunning || e.cfg.resume == .fromVolume) && decide ((done : Int) < m) then
              some s!"fail succeeded-by-max-trials-although-finished-trials-below-maxTrialCount {k.name} finished={done} max={m}"
            else none
          | none => none)
       | none => none)
    | _ => none
  match staleVerdict with
  | some f => f
  | none =>
  let bad := cur.exps.filterMap (fun e =>
    if isSucceeded e.st.conds && isFailed e.st.conds then some s!"fail succeeded-and-failed-both-true {e.key.name}"
    else if isCompleted e.st.conds && Cond.has e.st.conds .running then some s!"fail running-true-with-verdict {e.key.name}"
    else
      match lookup o.verdicts e.key with
      | none => none
      | some v =>
        if verdictOf e = some v then none
        else
          -- the verdict changed or was withdrawn: only a restart after a budget raise of a restartable experiment may do that
          let pe := findExp o.prev e.key
          let isRaise : Bool := match op with | .editMax k => decide (k = e.key) | _ => false
          let restartOk := match pe with
            | some p => o.raised.contains e.key && restartable p.st.conds p.cfg.resume &&
                (match p.maxT with | some m => decide (m > (p.st.trials : Int)) | none => p.st.trials != 0)
            | none => false
          if isRaise then none
          -- a legal restart may withdraw the verdict, or replace it within the same status write (e.g. the goal rule fires
          -- at once for an early-stopped trial whose observation arrived after the max-trials verdict)
          else if restartOk then none
          else some s!"fail verdict-reason-or-completion-time-changed {e.key.name} was={v.kind}/{v.reason}")
  bad.headD "pass"

/-! ## C04 -/
/-- region of the known finding: an early-stopped trial whose objective value is not (or never becomes) available
    keeps `incompleteEarlyStoppingCount ≥ 1`, so no further suggestion is requested -/
def wedgeKnown (_o : OSt) (cur : World) (k : Key2) : Bool :=
  (ownTrials cur k).any (fun t => tHas t .earlyStopped && !obsAvailable t.st)

def oracleC04 (o : OSt) (op : OpKind) (_log : List String) (cur : World) : String :=
  match op with
  | .quiesceBegin k =>
    match findExp cur k with
    | some e =>
      if e.maxT.isSome && !isCompleted e.st.conds then
        if wedgeKnown o cur k then "known C04-early-stopped-without-observation" else s!"fail quiescent-without-verdict {k.name}"
      else "pass"
    | none => "pass"
  | .quiesceEnd k =>
    match findExp cur k with
    | some e =>
      -- an experiment without maxTrialCount that has no verdict keeps running by design: it is never quiescent
      if e.maxT.isNone then "pass"
      else if o.quiesceWrites > 0 then
        if wedgeKnown o cur k then "known C04-early-stopped-without-observation"
        else s!"fail writes-in-quiescent-state {k.name} n={o.quiesceWrites}"
      else "pass"
    | none => "pass"
  | _ => "pass"

/-! ## C06 -/
def terminals : List TCT := [.succeeded, .failed, .metricsUnavailable, .earlyStopped, .killed]

def oracleC06 (o : OSt) (op : OpKind) (_log : List String) (cur : World) : String :=
  -- at quiescence a finished job has given its Trial a verdict: Failed for the failure condition, and for a successful job
  -- whose collector has reported, Succeeded or MetricsUnavailable
  let unjudged : Option String := match op with
    | .quiesceEnd k =>
      ((ownTrials cur k).filterMap (fun t =>
        if t.deleted || tCompleted t then none else
        match findJob cur t.key with
        | some j =>
          if j.state == .failed || j.state == .both then some s!"fail job-satisfied-the-failure-condition-but-trial-is-not-failed {t.key.name}"
          else if j.state == .succeeded && (dbOf cur t.key.name).any (fun e => e.metric = objMetric) then
            some s!"fail job-succeeded-and-collector-reported-but-trial-has-no-verdict {t.key.name}"
          else none
        | none => none)).head?
    | _ => none
  match unjudged with
  | some f => f
  | none =>
  let bad := cur.trials.filterMap (fun t =>
    let pj := findJob o.prev t.key
    let cj := findJob cur t.key
    let jobState := match pj, cj with | some j, _ => some j.state | none, some j => some j.state | none, none => none
    let withdrawn := match findTrial o.prev t.key with
      | some p => terminals.any (fun c => tHas p c && !tHas t c)
      | none => false
    let newly (c : TCT) := tHas t c && (match findTrial o.prev t.key with | some p => !tHas p c | none => true)
    if withdrawn then some s!"fail terminal-condition-withdrawn {t.key.name}"
    else if tHas t .succeeded && (tHas t .failed || tHas t .metricsUnavailable || tHas t .earlyStopped) then
      some s!"fail succeeded-coexists-with-another-verdict {t.key.name}"
    else if tHas t .succeeded && !obsAvailable t.st then some s!"fail succeeded-without-objective-value {t.key.name}"
    else if newly .succeeded && !((dbOf cur t.key.name).any (fun e => e.metric = objMetric && e.text != Metrics.unavailable)) then
      some s!"fail succeeded-although-no-objective-value-was-reported {t.key.name}"
    else if (match findTrial o.prev t.key with | some p => p.st.obs != t.st.obs | none => true) && (match t.st.obs with
        | some ms => ms.any (fun m => m.name = objMetric && m.latest != Metrics.unavailable &&
            !((dbOf cur t.key.name).any (fun e => e.metric = objMetric && e.text = m.latest)))
        | none => false) then some s!"fail observation-holds-a-value-never-reported-for-the-objective {t.key.name}"
    else if newly .succeeded && jobState != some .succeeded then some s!"fail succeeded-but-job-did-not-satisfy-success-condition {t.key.name}"
    else if newly .failed && !(jobState == some .failed || jobState == some .both) then some s!"fail failed-but-job-did-not-satisfy-failure-condition {t.key.name}"
    else if newly .metricsUnavailable && obsAvailable t.st then some s!"fail metrics-unavailable-although-objective-value-collected {t.key.name}"
    else none)
  bad.headD "pass"

/-! ## C07 -/
def oracleC07 (o : OSt) (op : OpKind) (log : List String) (cur : World) (res : String := "") : String :=
  -- a reconcile whose Delete of the run object was refused must fail (and so be requeued): otherwise nothing retries the
  -- clean-up of a completed Trial and the run object stays although `retain` is false
  let notRetried : Option Key2 := match op with
    | .recTrial k _ => if res == "ok" && log.contains ("job.delete." ++ k.ns ++ "/" ++ k.name ++ ":fault") then some k else none
    | _ => none
  if let some k := notRetried then s!"fail refused-run-object-delete-not-retried {k.name}" else
  let created := (okWrites log "job.create.").map parseK2
  let deleted := (okWrites log "job.delete.").map parseK2
  let twice := created.find? (fun k => (lookup o.jobCreates k).getD 0 ≥ 1)
  let createdCompleted := created.find? (fun k => match findTrial o.prev k with | some t => tCompleted t | none => true)
  let deletedUnfinished := deleted.find? (fun k => match findTrial o.prev k with | some t => !tCompleted t | none => false)
  -- a Trial under deletion loses its finalizer (or disappears) only in a reconcile whose database clean-up succeeded
  let released : Option Key2 := match op with
    | .recTrial k _ =>
      (match findTrial o.prev k with
       | some p =>
         if p.deleted && p.fin && (match findTrial cur k with | some t => !t.fin | none => true) &&
            !log.contains ("db.delete." ++ k.name ++ ":ok") then some k else none
       | none => none)
    | _ => none
  let rowsLeft : Option Key2 := match op with
    | .recTrial k _ =>
      (match findTrial o.prev k, findTrial cur k with
       | some p, none => if p.deleted && cur.db.any (fun r => r.1 = k.name) then some k else none
       | _, _ => none)
    | _ => none
  match released, rowsLeft with
  | some k, _ => s!"fail finalizer-released-without-database-cleanup {k.name}"
  | _, some k => s!"fail observation-log-remains-after-trial-deletion {k.name}"
  | _, _ =>
  -- known finding: the run object of a completed Trial was removed by someone else and a reconcile that still reads a
  -- Trial copy from before the completion creates it again
  let staleRecreate (k : Key2) : Bool := match op with
    | .recTrial k' false => decide (k' = k) && o.jobGoneExt.contains k
    | _ => false
  match twice, createdCompleted, deletedUnfinished with
  | some k, _, _ =>
    if staleRecreate k then "known C07-recreated-after-external-removal-under-trial-cache-lag"
    else s!"fail run-object-created-twice {k.name}"
  | _, some k, _ =>
    if staleRecreate k then "known C07-recreated-after-external-removal-under-trial-cache-lag"
    else s!"fail run-object-created-for-completed-or-absent-trial {k.name}"
  | _, _, some k => s!"fail run-object-of-unfinished-trial-deleted {k.name}"
  | _, _, _ =>
    match op with
    | .quiesceEnd k =>
      let bad := (ownTrials cur k).find? (fun t => tCompleted t && ((findJob cur t.key).isSome != t.retain) && (lookup o.jobCreates t.key).isSome &&
        !(t.retain && o.jobGoneExt.contains t.key))
      match bad with
      | some t => s!"fail run-object-cleanup-does-not-follow-retain {t.key.name} retain={t.retain}"
      | none => "pass"
    | _ => "pass"

/-! ## C08 -/
def isPrefix (a b : List String) : Bool := a.length ≤ b.length && b.take a.length == a

def oracleC08 (o : OSt) (op : OpKind) (log : List String) (cur : World) : String :=
  let bad := cur.sugs.filterMap (fun s =>
    let prevNames := match findSug o.prev s.key with | some p => p.st.names | none => []
    let prevS := findSug o.prev s.key
    if !isPrefix prevNames s.st.names then some s!"fail assignments-not-append-only {s.key.name}"
    else if s.st.names.eraseDups.length != s.st.names.length then some s!"fail duplicate-assignment-name {s.key.name}"
    else if s.st.count != (s.st.names.length : Int) then some s!"fail suggestionCount-differs-from-list-length {s.key.name}"
    else if s.st.count > (let m := (lookup o.maxReq s.key).getD 0; if s.requests > m then s.requests else m) then
      some s!"fail more-suggestions-than-ever-requested {s.key.name}"
    else
      let grew := s.st.names.length - prevNames.length
      if grew == 0 then none
      else match op, prevS with
        | .recSug k _ _, some p =>
          if k = s.key then
            let rpcOk := log.any (fun l => l.startsWith ("rpc.getSuggestions." ++ k.name ++ "(") && l.endsWith ":ok")
            let rulesFailed := log.any (fun l => l.startsWith "rpc.getRules." && !l.endsWith ":ok")
            -- the sync may have been computed from a lagging copy: the amount is requests - count of *some* past copy; with a
            -- current copy it must be exact
            if !rpcOk || rulesFailed then some s!"fail assignments-appended-without-successful-response {s.key.name}"
            else if (grew : Int) != p.requests - p.st.count then some s!"fail appended-count-differs-from-requests-minus-count {s.key.name}"
            else none
          else some s!"fail assignments-changed-by-foreign-reconcile {s.key.name}"
        | _, _ => some s!"fail assignments-grew-outside-a-sync {s.key.name}")
  bad.headD "pass"

/-! ## C09 -/
def oracleC09 (o : OSt) (op : OpKind) (log : List String) (_cur : World) : String :=
  if log.any (fun l => (l.splitOn "@endpoint-of-another-namespace").length > 1) then
    "fail request-sent-to-the-algorithm-service-of-another-namespace" else
  match op with
  | .recSug k live tlive =>
    let reqs := log.filter (fun l => l.startsWith ("rpc.getSuggestions."))
    let bad := reqs.filterMap (fun l =>
      -- rpc.getSuggestions.<exp>(cur/total/a+b):<res>
      match ((l.splitOn "(").getD 1 "").splitOn ")" with
      | inner :: _ =>
        match inner.splitOn "/" with
        | [c, t, names] =>
          let sent := if names == "" then [] else names.splitOn "+"
          let own := ownTrials o.prev k
          let everOwn := (lookup o.ever k).getD []
          let foreign := sent.find? (fun n => !everOwn.contains n)
          match foreign with
          | some n => some s!"fail foreign-trial-sent-to-algorithm {k.ns}/{k.name} got={n}"
          | none =>
            -- which Trials are sent is judged whenever the Trial list was read live; the request numbers when everything was
            if live || tlive then
              let want := sentTrials own
              let s := findSug o.prev k
              let numsOk := !live || (match s with
                | some s => c.toInt? == some (s.requests - s.st.count) && t.toInt? == some s.requests
                | none => true)
              if sortS sent != want then some s!"fail request-trials-differ-from-own-eligible-trials {k.name}"
              else if !numsOk then some s!"fail request-numbers-differ {k.name}"
              else none
            else none
        | _ => some "fail unparsable-request"
      | _ => some "fail unparsable-request")
    bad.headD "pass"
  | _ => "pass"

/-! ## C16 -/
def oracleC16 (o : OSt) (op : OpKind) (log : List String) (cur : World) : String :=
  -- judged on reconciles that read the live Suggestion: one that still sees a not-yet-succeeded cached copy may call the
  -- algorithm once more (its status write is then rejected as a conflict)
  let rpcWhenSucceeded := match op with
    | .recSug _ false _ => false
    | .recSug k true _ =>
      (match findSug o.prev k with
       | some s => sHas s .succeeded && log.any (fun l => l.startsWith "rpc.")
       | none => false)
    | _ => false
  if rpcWhenSucceeded then "fail algorithm-called-for-succeeded-suggestion"
  else match op with
  | .quiesceEnd k =>
    match findExp cur k, findSug cur k with
    | some e, some s =>
      let dk := infraKey k
      if isCompleted e.st.conds then
        if e.cfg.resume = .longRunning then
          if sHas s .succeeded then s!"fail long-running-suggestion-marked-succeeded {k.name}"
          else if (lookup o.maxReq k).isSome && sHas s .deploymentReady && ((findDeploy cur dk).isNone || !cur.svcs.contains dk) then
            s!"fail long-running-algorithm-service-removed {k.name}"
          else "pass"
        else
          if sCompleted s && !sHas s .succeeded then "pass"   -- a failed suggestion is not cleaned up
          else if !sHas s .succeeded then s!"fail suggestion-not-succeeded-after-completion {k.name}"
          else if (findDeploy cur dk).isSome then s!"fail deployment-remains-after-completion {k.name}"
          else if cur.svcs.contains dk then s!"fail service-remains-after-completion {k.name}"
          else if e.cfg.resume = .fromVolume && (Cond.get s.st.conds .deploymentReady).isSome && !cur.pvcs.contains dk then s!"fail volume-claim-removed {k.name}"
          else "pass"
      else "pass"
    | _, _ => "pass"
  | _ => "pass"

/-! ## C17 on schedules: the algorithm pod's RBAC -/
/-- with early stopping, once the algorithm Deployment exists the generated ServiceAccount, Role and RoleBinding exist too
    (judged at quiescence: transient gaps while a reconcile is being retried are not violations) -/
def oracleC17sim (_o : OSt) (op : OpKind) (log : List String) (cur : World) : String :=
  -- the address a controller dials for a Suggestion is `<service>.<namespace of that Suggestion>:port`
  if log.any (fun l => (l.splitOn "@endpoint-of-another-namespace").length > 1) then
    "fail algorithm-service-dialled-in-another-namespace-than-the-suggestion" else
  match op with
  | .quiesceEnd k =>
    match findExp cur k with
    | some e =>
      let dk := infraKey k
      if e.cfg.es && (findDeploy cur dk).isSome && !(cur.sas.contains dk && cur.roles.contains dk && cur.rbs.contains dk) then
        s!"fail early-stopping-deployment-without-its-serviceaccount-role-rolebinding {k.name}"
      else "pass"
    | none => "pass"
  | _ => "pass"

end Katib.Ctl
