import Katib.Model.Cond
import Katib.Model.Metrics
import Katib.Model.ExpStatus
/-!
# The world of the three controllers (DESIGN.md §4.2)

Object store (Experiment, Suggestion, Trial, run objects, Deployment, Service, PVC, RBAC trio; typed
objects carry `rv`), the metrics DB and the algorithm service's fresh-name counter.  Core only.
-/
namespace Katib.Ctl
open Katib Katib.Exp

/-! ### condition types of trials and suggestions -/

inductive TCT | created | running | succeeded | killed | failed | metricsUnavailable | earlyStopped
  deriving Repr, DecidableEq
inductive SCT | created | deploymentReady | running | succeeded | failed
  deriving Repr, DecidableEq

abbrev TCond := Cond TCT
abbrev SCond := Cond SCT

structure Key2 where
  ns : String
  name : String
  deriving Repr, DecidableEq

/-- the immutable part of an Experiment spec that the controllers read -/
structure ExpCfg where
  goal : Option Int
  objType : ObjType
  resume : Resume
  es : Bool
  retain : Bool
  push : Bool
  labels : Bool
  deriving Repr, DecidableEq

structure ExpSt where
  conds : List ECond := []
  completion : Option Nat := none
  started : Bool := false
  lists : Lists := {}
  trials : Nat := 0
  counts : List Nat := [0, 0, 0, 0, 0, 0, 0]   -- K F S E R M P (stored counters)
  opt : Option String := none
  optObs : List Metrics.Metric := []
  deriving Repr, DecidableEq

structure ExpO where
  key : Key2
  rv : Nat := 1
  deleted : Bool := false
  fin : Bool := false
  par : Int
  maxT : Option Int
  maxF : Option Int
  cfg : ExpCfg
  st : ExpSt := {}
  deriving Repr, DecidableEq

structure TrialSt where
  conds : List TCond := []
  completion : Option Nat := none
  started : Bool := false
  obs : Option (List Metrics.Metric) := none
  deriving Repr, DecidableEq

structure TrialO where
  key : Key2
  exp : String
  rv : Nat := 1
  deleted : Bool := false
  fin : Bool := false
  retain : Bool
  push : Bool
  objType : ObjType
  st : TrialSt := {}
  deriving Repr, DecidableEq

structure SugSt where
  conds : List SCond := []
  names : List String := []
  count : Int := 0
  started : Bool := false
  deriving Repr, DecidableEq

structure SugO where
  key : Key2
  rv : Nat := 1
  requests : Int
  resume : Resume
  es : Bool
  st : SugSt := {}
  deriving Repr, DecidableEq

inductive JobState | running | succeeded | failed | both
  deriving Repr, DecidableEq

structure JobO where
  key : Key2
  state : JobState := .running
  deriving Repr, DecidableEq

structure DeployO where
  key : Key2
  ready : Bool := false
  deriving Repr, DecidableEq

structure World where
  exps : List ExpO := []
  trials : List TrialO := []
  sugs : List SugO := []
  jobs : List JobO := []
  deploys : List DeployO := []
  svcs : List Key2 := []
  pvcs : List Key2 := []
  sas : List Key2 := []
  roles : List Key2 := []
  rbs : List Key2 := []
  db : List (String × List Metrics.Entry) := []
  algoN : Nat := 0
  deriving Repr

/-! ### reasons -/
def rTrialCreated := "TrialCreated"
def rTrialRunning := "TrialRunning"
def rTrialSucceeded := "TrialSucceeded"
def rTrialMU := "MetricsUnavailable"
def rTrialFailed := "TrialFailed"
def rTrialES := "TrialEarlyStopped"
def rSugCreated := "SuggestionCreated"
def rSugRunning := "SuggestionRunning"
def rSugFailed := "SuggestionFailed"
def rSugDeployReady := "DeploymentReady"
def rSugDeployNotReady := "DeploymentNotReady"
def rSugSucceededRunning := "Suggestion is succeeded"
def rSugRestart := "Experiment is restarting"
def rSugExpSucceeded := "Experiment is succeeded"

/-! ### lookups -/
def findExp (w : World) (k : Key2) : Option ExpO := w.exps.find? (fun e => e.key = k)
def findTrial (w : World) (k : Key2) : Option TrialO := w.trials.find? (fun t => t.key = k)
def findSug (w : World) (k : Key2) : Option SugO := w.sugs.find? (fun s => s.key = k)
def findJob (w : World) (k : Key2) : Option JobO := w.jobs.find? (fun j => j.key = k)
def findDeploy (w : World) (k : Key2) : Option DeployO := w.deploys.find? (fun d => d.key = k)
def dbOf (w : World) (trial : String) : List Metrics.Entry :=
  match w.db.find? (fun p => p.1 = trial) with
  | some p => p.2
  | none => []

/-- the Trials of an experiment as a List call selects them: namespace and experiment label -/
def insertByName (t : TrialO) : List TrialO → List TrialO
  | [] => [t]
  | u :: us => if t.key.name ≤ u.key.name then t :: u :: us else u :: insertByName t us

/-- a List call answers in key order (namespace/name), not in creation order -/
def sortByName (l : List TrialO) : List TrialO := l.foldr insertByName []

def trialsOf (w : World) (k : Key2) : List TrialO :=
  sortByName (w.trials.filter (fun t => t.key.ns = k.ns ∧ t.exp = k.name))

/-! ### trial predicates (trials/v1beta1/util.go) -/
def tHas (t : TrialO) (c : TCT) : Bool := Cond.has t.st.conds c
def tCompleted (t : TrialO) : Bool :=
  tHas t .succeeded || tHas t .failed || tHas t .killed || tHas t .earlyStopped || tHas t .metricsUnavailable

def objMetric : String := "acc"

/-- `IsObservationAvailable` -/
def obsAvailable (st : TrialSt) : Bool :=
  match st.obs with
  | some ms => ms.any (fun m => m.name = objMetric ∧ m.latest ≠ Metrics.unavailable)
  | none => false

/-- the view of a Trial that `updateTrialsSummary` reads -/
def toTrialV (t : TrialO) : TrialV :=
  { name := t.key.name, killed := tHas t .killed, failed := tHas t .failed, succeeded := tHas t .succeeded,
    earlyStopped := tHas t .earlyStopped, running := tHas t .running, metricsUnavailable := tHas t .metricsUnavailable,
    objName := objMetric,
    strategies := [(objMetric, match t.objType with | .minimize => .min | .maximize => .max | .other => .latest)],
    obs := t.st.obs.map (fun ms => ms.map (fun m =>
      { name := m.name, min := m.min, minK := m.minK, max := m.max, maxK := m.maxK, latest := m.latest, latestK := m.latestK })) }

/-! ### suggestion predicates -/
def sHas (s : SugO) (c : SCT) : Bool := Cond.has s.st.conds c
def sCompleted (s : SugO) : Bool := sHas s .succeeded || sHas s .failed
def sRestarting (s : SugO) : Bool :=
  match Cond.get s.st.conds .running with
  | some c => c.st = false ∧ c.reason = rSugRestart
  | none => false

end Katib.Ctl
