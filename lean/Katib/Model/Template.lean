/-!
# Model of the trial-template instantiation (experiment/manifest/generator.go, experiment_controller_util.go)

`strings.Replace(s, pat, rep, -1)` as `replaceAll` on character lists; templates as literal / placeholder segments;
`applyParameters`' placeholder map; `getTrialInstance`'s field copy.  Regexp parsing of references, JSON/YAML
(de)serialisation are oracles.  Core only.
-/
namespace Katib.Tpl


/-- `strings.Replace(s, pat, rep, -1)` for non-empty `pat`: leftmost, non-overlapping.
`k` = number of already-matched characters still to skip. -/
def replaceAux (pat rep : List Char) : Nat → List Char → List Char
  | _, [] => []
  | k+1, _ :: s => replaceAux pat rep k s
  | 0, c :: s =>
    if pat.isPrefixOf (c :: s) then rep ++ replaceAux pat rep (pat.length - 1) s
    else c :: replaceAux pat rep 0 s

def replaceAll (pat rep s : List Char) : List Char := replaceAux pat rep 0 s

inductive Seg where
  | lit (s : List Char)
  | hole (n : List Char)

/-- tail of the placeholder prefix after the leading `$` -/
def preTail : List Char := ['{','t','r','i','a','l','P','a','r','a','m','e','t','e','r','s','.']
def ph (n : List Char) : List Char := '$' :: (preTail ++ n ++ ['}'])

abbrev Subst := List Char → Option (List Char)

def renderSeg (σ : Subst) : Seg → List Char
  | .lit s => s
  | .hole n => match σ n with
    | some v => v
    | none => ph n

def render (σ : Subst) : List Seg → List Char
  | [] => []
  | sg :: r => renderSeg σ sg ++ render σ r

def Subst.insert (σ : Subst) (n v : List Char) : Subst := fun m => if m = n then some v else σ m

def DollarFree (s : List Char) : Prop := '$' ∉ s
def NameOk (n : List Char) : Prop := '$' ∉ n ∧ '}' ∉ n

def SegOk (σ : Subst) : Seg → Prop
  | .lit s => DollarFree s
  | .hole n => NameOk n ∧ ∀ v, σ n = some v → DollarFree v


/-- the replacement loop of `applyParameters` (Go iterates a map: any order) -/
def applyAll (ps : List (List Char × List Char)) (tpl : List Char) : List Char :=
  ps.foldl (fun s p => replaceAll (ph p.1) p.2 s) tpl

/-- how a trial parameter's `reference` parses (`TrialTemplateMetaReplaceFormatRegex` / `…ParseFormatRegex` are oracles) -/
inductive Ref
  | assign (name : String)                 -- consumes the assignment of that name
  | metaName | metaNamespace | metaKind | metaAPIVersion
  | metaAnnotation (key : String) | metaLabel (key : String)
  | illegal
  deriving Repr, DecidableEq

structure Meta where
  trialName : String
  trialNamespace : String
  kind : String
  apiVersion : String
  annotations : List (String × String)
  labels : List (String × String)
  deriving Repr, DecidableEq

inductive Err | notInAssignment | notInTrialParameters | illegalMeta
  deriving Repr, DecidableEq

def lookupS (l : List (String × String)) (k : String) : Option String := (l.find? (fun p => p.1 = k)).map (·.2)

/-- the assignments map (`assignmentsMap[name] = value`: the last assignment of a name wins) -/
def lookupLast (l : List (String × String)) (k : String) : Option String := lookupS l.reverse k

/-- the loop over `trialParameters`: placeholder map entries in declaration order and the number of non-meta parameters -/
def buildMap (m : Meta) (assignments : List (String × String)) : List (String × Ref) → Except Err (List (String × String) × Nat)
  | [] => .ok ([], 0)
  | (name, ref) :: rest =>
    let value : Except Err (String × Nat) :=
      match ref with
      | .assign r => match lookupLast assignments r with | some v => .ok (v, 1) | none => .error .notInAssignment
      | .metaName => .ok (m.trialName, 0)
      | .metaNamespace => .ok (m.trialNamespace, 0)
      | .metaKind => .ok (m.kind, 0)
      | .metaAPIVersion => .ok (m.apiVersion, 0)
      | .metaAnnotation k => match lookupS m.annotations k with | some v => .ok (v, 0) | none => .error .illegalMeta
      | .metaLabel k => match lookupS m.labels k with | some v => .ok (v, 0) | none => .error .illegalMeta
      | .illegal => .error .illegalMeta
    match value with
    | .error e => .error e
    | .ok (v, c) =>
      match buildMap m assignments rest with
      | .error e => .error e
      | .ok (ps, n) => .ok ((name, v) :: ps, n + c)

/-- Go's `placeHolderToValueMap[param.Name] = value`: a later parameter of the same name overwrites -/
def dedupLast (ps : List (String × String)) : List (String × String) :=
  ps.foldl (fun acc p => if acc.any (fun a => a.1 = p.1) then acc.map (fun a => if a.1 = p.1 then p else a) else acc ++ [p]) []

/-- `applyParameters`: the placeholder map, or the error; the count check compares with `len(assignments)` -/
def placeholders (m : Meta) (assignments : List (String × String)) (params : List (String × Ref)) : Except Err (List (String × String)) :=
  match buildMap m assignments params with
  | .error e => .error e
  | .ok (ps, n) => if assignments.length ≠ n then .error .notInTrialParameters else .ok (dedupLast ps)

def instantiate (m : Meta) (assignments : List (String × String)) (params : List (String × Ref)) (tpl : String) : Except Err String :=
  match placeholders m assignments params with
  | .error e => .error e
  | .ok ps => .ok (String.ofList (applyAll (ps.map (fun p => (p.1.toList, p.2.toList))) tpl.toList))

/-! ### `getTrialInstance` -/

structure ExpIn where
  name : String
  ns : String
  labels : List (String × String)
  hasEarlyStopping : Bool
  deriving Repr, DecidableEq

structure Assignment where
  name : String
  params : List (String × String)
  labels : Option (List (String × String))
  rules : List String
  deriving Repr, DecidableEq

structure TrialOut where
  name : String
  ns : String
  labels : List (String × String)      -- as a set (Go map)
  owner : String
  params : List (String × String)
  rules : List String
  deriving Repr, DecidableEq

def setLabel (l : List (String × String)) (k v : String) : List (String × String) :=
  if l.any (fun p => p.1 = k) then l.map (fun p => if p.1 = k then (k, v) else p) else l ++ [(k, v)]

/-- `util.TrialLabels` then the assignment's labels on top -/
def trialLabels (e : ExpIn) (a : Assignment) : List (String × String) :=
  (a.labels.getD []).foldl (fun acc p => setLabel acc p.1 p.2) (setLabel e.labels "katib.kubeflow.org/experiment" e.name)

def trialInstance (e : ExpIn) (a : Assignment) : TrialOut :=
  { name := a.name, ns := e.ns, labels := trialLabels e a, owner := e.name, params := a.params,
    rules := if e.hasEarlyStopping then a.rules else [] }

end Katib.Tpl
