/-!
# Model of the Go suggestion service (pkg/suggestion/v1beta1/goptuna: service.go, sample.go, converter.go)

The bookkeeping of the service — the study's trials, the Katib-name → Goptuna-id mapping, `syncTrials`,
`findGoptunaTrialIDByParam`, `sampleNextParam` — as a state machine whose sampler output is an input (the samplers are a
third-party library with floating point and random numbers).  External parameter values are compared as their canonical
strings (Go compares `map[string]interface{}` with `reflect.DeepEqual` after a parse of the strings Katib sends back).
The grid snap of stepped parameters (`ToExternalRepr`) is modelled in exact integer arithmetic.  Core only.
-/
namespace Katib.Gop

/-! ### trial bookkeeping -/

inductive GState | running | complete | pruned | fail
  deriving Repr, DecidableEq

def GState.finished : GState → Bool
  | .running => false
  | _ => true

inductive KState | created | running | succeeded | killed | failed | metricsUnavailable | earlyStopped | unknown
  deriving Repr, DecidableEq

/-- `toGoptunaState` -/
def toG : KState → GState
  | .created => .running
  | .running => .running
  | .succeeded => .complete
  | .failed => .fail
  | .earlyStopped => .pruned
  | .killed => .fail
  | .metricsUnavailable => .fail
  | .unknown => .fail

abbrev Params := List (String × String)     -- canonical: sorted by parameter name

structure GTrial where
  id : Nat
  state : GState
  params : Params
  deriving Repr, DecidableEq

structure Svc where
  trials : List GTrial := []                  -- in creation order
  mapping : List (String × Nat) := []         -- Katib trial name → Goptuna trial id
  deriving Repr, DecidableEq

structure KTrial where
  name : String
  state : KState
  params : Params
  convertible : Bool      -- `toGoptunaTrials` succeeds for it: times parse, a succeeded trial has a parseable objective value, values parse
  deriving Repr, DecidableEq

inductive Err | convert | notFound | storage
  deriving Repr, DecidableEq

def mapOf (m : List (String × Nat)) (n : String) : Option Nat :=
  match m with
  | [] => none
  | (k, v) :: r => if k = n then some v else mapOf r n

def mapped (m : List (String × Nat)) (id : Nat) : Bool := m.any (fun p => p.2 = id)

/-- the scan of `findGoptunaTrialIDByParam`: from the newest trial backwards, the first running, unmapped trial with equal
    external parameters -/
def findIn (m : List (String × Nat)) (ps : Params) : List GTrial → Option Nat
  | [] => none
  | t :: r => if t.state = .running ∧ mapped m t.id = false ∧ t.params = ps then some t.id else findIn m ps r

def findId (s : Svc) (ps : Params) : Option Nat := findIn s.mapping ps s.trials.reverse

def getTrial (ts : List GTrial) (id : Nat) : Option GTrial :=
  match ts with
  | [] => none
  | t :: r => if t.id = id then some t else getTrial r id

def setState (ts : List GTrial) (id : Nat) (st : GState) : List GTrial :=
  ts.map (fun t => if t.id = id then { t with state := st } else t)

/-- one iteration of the loop in `syncTrials` -/
def syncOne (s : Svc) (k : KTrial) : Except Err Svc :=
  let found : Except Err (Svc × Nat) :=
    match mapOf s.mapping k.name with
    | some id => .ok (s, id)
    | none =>
      match findId s k.params with
      | none => .error .notFound
      | some id => .ok ({ s with mapping := (k.name, id) :: s.mapping }, id)
  match found with
  | .error e => .error e
  | .ok (s1, id) =>
    match getTrial s1.trials id with
    | none => .error .storage
    | some g =>
      if g.state.finished then .ok s1
      else if toG k.state = g.state then .ok s1
      else .ok { s1 with trials := setState s1.trials id (toG k.state) }

def syncAll (s : Svc) : List KTrial → Except Err Svc
  | [] => .ok s
  | k :: r => match syncOne s k with
    | .error e => .error e
    | .ok s1 => syncAll s1 r

/-- `sampleNextParam` × n: new running trials with the sampler's (external) parameters -/
def sample (s : Svc) : List Params → Svc
  | [] => s
  | p :: r => sample { s with trials := s.trials ++ [{ id := s.trials.length, state := .running, params := p }] } r

/-- `GetSuggestions` after the study exists: convert (any failure rejects the request before anything changes), sync, sample -/
def request (s : Svc) (ks : List KTrial) (sampled : List Params) : Except Err Svc :=
  if ks.any (fun k => !k.convertible) then .error .convert
  else match syncAll s ks with
    | .error e => .error e
    | .ok s1 => .ok (sample s1 sampled)

/-! ### grid snap (exact arithmetic; the internal value is `a / d`) -/

/-- `StepIntUniformDistribution.ToExternalRepr` / `DiscreteUniformDistribution.ToExternalRepr` in units where low, high and
    step are integers: `round((ir - low) / step) * step + low` for `ir = a / d ≥ low` -/
def snap (low step : Int) (a d : Int) : Int := ((2 * (a - low * d) + step * d) / (2 * (step * d))) * step + low

end Katib.Gop
