/-!
# Model of the update branch of `DefaultValidator.ValidateExperiment` (oldInst != nil)

A spec is the three budget fields plus the rest (an abstract value compared by equality: `reflect`/semantic
DeepEqual is an oracle).  Core only.
-/
namespace Katib.Upd

structure Spec (R : Type) where
  par : Option Int
  max : Option Int
  mf : Option Int
  rest : R
  deriving DecidableEq, Repr

structure Old (R : Type) where
  spec : Spec R
  trials : Int            -- status.trials
  completed : Bool        -- IsCompleted
  restartable : Bool      -- IsCompletedExperimentRestartable
  deriving Repr

structure UpdErrs where
  notRestartable : Bool   -- "Experiment can be restarted if ..."
  maxNotAbove : Bool      -- "must be greater than status.trials count"
  forbidden : Bool        -- "only spec.parallelTrialCount, spec.maxTrialCount and spec.maxFailedTrialCount are editable"
  deriving DecidableEq, Repr

def updErrs {R : Type} [DecidableEq R] (new : Spec R) (old : Old R) : UpdErrs :=
  let restarting := decide (new ≠ old.spec)
  { notRestartable := restarting && old.completed && !old.restartable,
    maxNotAbove := restarting && (match new.max with | some m => decide (m ≤ old.trials) | none => false),
    forbidden := decide ({ old.spec with par := new.par, max := new.max, mf := new.mf } ≠ new) }

def UpdErrs.none (e : UpdErrs) : Bool := !e.notRestartable && !e.maxNotAbove && !e.forbidden

/-- the update is admitted iff the creation-time checks pass on the new object and no update error arises -/
def admitUpdate {R : Type} [DecidableEq R] (createOk : Bool) (new : Spec R) (old : Old R) : Bool :=
  createOk && (updErrs new old).none

end Katib.Upd
