/-!
# Model of the file metrics collector's log parsing (file-metricscollector.go)

`regexp`, `strings.Contains/SplitN/TrimSpace`, `time.Parse`, `encoding/json` and `strconv.FormatFloat` are oracles:
a TEXT line arrives with its pre-filter flag, its first token's parse result and, per filter, the list of
submatch lists; a JSON line arrives decoded.  Core only.
-/
namespace Katib.Log

def zeroTime : String := "0001-01-01T00:00:00Z"
def unavailable : String := "unavailable"

structure Rec where
  ts : String
  name : String
  value : String
  deriving Repr, DecidableEq

/-- one regexp match: number of submatch entries (`len(kevList)`), and the trimmed groups 1 and 2 -/
structure Match where
  groups : Nat
  name : String
  value : String
  deriving Repr, DecidableEq

structure TextLine where
  isMetricLine : Bool              -- some tracked name is a substring of the line
  firstToken : Option String       -- `some tok`: the line contains a space and tok (before it) parses as RFC3339(Nano)
  found : List (List Match)        -- per filter, in match order
  deriving Repr, DecidableEq

/-- the innermost loop: `for _, m := range metrics { if name != m {continue}; append; break }` -/
def firstTracked (metrics : List String) (ts : String) (m : Match) : List Rec :=
  match metrics with
  | [] => []
  | x :: xs => if m.name = x then [{ ts := ts, name := m.name, value := m.value }] else firstTracked xs ts m

def lineRecs (metrics : List String) (l : TextLine) : List Rec :=
  if !l.isMetricLine then []
  else
    let ts := match l.firstToken with | some t => t | none => zeroTime
    l.found.flatMap (fun ms => ms.flatMap (fun m => if m.groups < 3 then [] else firstTracked metrics ts m))

/-- `newObservationLog`; `none` models the index-out-of-range panic on an empty metric list -/
def finish (recs : List Rec) (metrics : List String) : Option (List Rec) :=
  match metrics with
  | [] => none
  | obj :: _ =>
    if recs.any (fun r => r.name = obj) then some recs
    else some [{ ts := zeroTime, name := obj, value := unavailable }]

def parseText (lines : List TextLine) (metrics : List String) : Option (List Rec) :=
  finish (lines.flatMap (lineRecs metrics)) metrics

/-! ### JSON -/

inductive JTs
  | absent
  | str (ok : Option String)        -- string value: `some s` = non-empty and parses as RFC3339Nano
  /-- a JSON number: FormatFloat(f,'f',-1,64) split at "."; `strconv.ParseInt` of each part is an oracle (`none` = error);
      `digits` = number of fractional digits -/
  | num (sec : Option Int) (frac : Option (Option Int)) (digits : Nat)
  | other
  deriving Repr, DecidableEq

inductive JLine
  | empty
  | invalid                         -- json.Unmarshal fails
  | obj (ts : JTs) (vals : List (Option String))   -- per tracked metric (in order): its value when it is a JSON string
  deriving Repr, DecidableEq

/-- the instant `time.Unix(sec, nsec)` denotes, in nanoseconds since the epoch -/
def unixNanos (sec nsec : Int) : Int := sec * 1000000000 + nsec

/-- `parseTimestamp` on a number: integer part as seconds, the fractional *digits* read as an integer of nanoseconds -/
def epochNanos (sec : Option Int) (frac : Option (Option Int)) : Option Int :=
  match sec, frac with
  | some s, none => some (unixNanos s 0)
  | some s, some (some n) => some (unixNanos s n)
  | _, _ => none

inductive OutTs | text (s : String) | nanos (n : Int)
  deriving Repr, DecidableEq

structure JRec where
  ts : OutTs
  name : String
  value : String
  deriving Repr, DecidableEq

def jsonTs (t : JTs) : OutTs :=
  match t with
  | .absent => .text zeroTime
  | .str (some s) => .text s
  | .str none => .text zeroTime
  | .num i f _ => match epochNanos i f with | some n => .nanos n | none => .text zeroTime
  | .other => .text zeroTime

def jsonLineRecs (metrics : List String) (ts : JTs) (vals : List (Option String)) : List JRec :=
  (metrics.zip vals).filterMap (fun p => p.2.map (fun v => { ts := jsonTs ts, name := p.1, value := v }))

/-- `parseLogsInJsonFormat`: `none` = error return (a line that is not a JSON object), `some none` = panic (no metrics) -/
def parseJson (lines : List JLine) (metrics : List String) : Option (Option (List JRec)) :=
  let rec go : List JLine → Option (List JRec)
    | [] => some []
    | .empty :: r => go r
    | .invalid :: _ => none
    | .obj ts vals :: r => (go r).map (fun rest => jsonLineRecs metrics ts vals ++ rest)
  match go lines with
  | none => none
  | some recs =>
    match metrics with
    | [] => some none
    | obj :: _ =>
      if recs.any (fun r => r.name = obj) then some (some recs)
      else some (some [{ ts := .text zeroTime, name := obj, value := unavailable }])

end Katib.Log
