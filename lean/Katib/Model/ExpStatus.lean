import Katib.Model.Cond
/-!
# Model of pkg/controller.v1beta1/experiment/util/status_util.go

`UpdateExperimentStatus`, `updateTrialsSummary`, `getObjectiveMetricValue`,
`UpdateExperimentStatusCondition`, `IsCompletedExperimentRestartable` and the experiment `Mark*`
helpers.  `strconv.ParseFloat` is an oracle: every metric text carries its key.  Core only.
-/
namespace Katib.Exp

inductive CT | created | running | restarting | succeeded | failed
  deriving Repr, DecidableEq

abbrev ECond := Cond CT

/-- reasons (util.Experiment*Reason) -/
def rCreated := "ExperimentCreated"
def rRunning := "ExperimentRunning"
def rRestarting := "ExperimentRestarting"
def rGoal := "ExperimentGoalReached"
def rMaxTrials := "ExperimentMaxTrialsReached"
def rSugEnd := "ExperimentSuggestionEndReached"
def rFailed := "ExperimentFailed"

/-- the ParseFloat oracle for one text: `none` = ParseFloat error, `some k` = order key of the float -/
abbrev Key := Option Int

structure MetricV where
  name : String
  min : String
  minK : Key
  max : String
  maxK : Key
  latest : String
  latestK : Key
  deriving Repr, DecidableEq

inductive Strat | min | max | latest | other
  deriving Repr, DecidableEq

inductive ObjType | minimize | maximize | other
  deriving Repr, DecidableEq

/-- the part of a Trial that updateTrialsSummary reads -/
structure TrialV where
  name : String
  killed : Bool
  failed : Bool
  succeeded : Bool
  earlyStopped : Bool
  running : Bool
  metricsUnavailable : Bool
  objName : String
  strategies : List (String × Strat)
  obs : Option (List MetricV)
  deriving Repr, DecidableEq

def unavailable : String := "unavailable"

/-- `getObjectiveMetricValue`: text and its ParseFloat key -/
def objectiveOf (t : TrialV) : String × Key :=
  match t.obs with
  | none => (unavailable, none)
  | some ms =>
    let strat : Strat :=
      match t.strategies.find? (fun s => s.1 = t.objName) with
      | some s => s.2
      | none => .other
    let rec go : List MetricV → String × Key
      | [] => (unavailable, none)
      | m :: rest =>
        if t.objName = m.name then
          match strat with
          | .min => if m.min = unavailable then (m.latest, m.latestK) else (m.min, m.minK)
          | .max => if m.max = unavailable then (m.latest, m.latestK) else (m.max, m.maxK)
          | .latest => (m.latest, m.latestK)
          | .other => go rest
        else go rest
    go ms

inductive Class | killed | failed | succeeded | earlyStopped | running | metricsUnavailable | pending
  deriving Repr, DecidableEq

/-- the if/else classification chain -/
def classify (t : TrialV) : Class :=
  if t.killed then .killed
  else if t.failed then .failed
  else if t.succeeded then .succeeded
  else if t.earlyStopped then .earlyStopped
  else if t.running then .running
  else if t.metricsUnavailable then .metricsUnavailable
  else .pending

structure Lists where
  killed : List String := []
  failed : List String := []
  succeeded : List String := []
  earlyStopped : List String := []
  running : List String := []
  metricsUnavailable : List String := []
  pending : List String := []
  deriving Repr, DecidableEq

def Lists.get (l : Lists) : Class → List String
  | .killed => l.killed | .failed => l.failed | .succeeded => l.succeeded | .earlyStopped => l.earlyStopped
  | .running => l.running | .metricsUnavailable => l.metricsUnavailable | .pending => l.pending

def Lists.push (l : Lists) (c : Class) (n : String) : Lists :=
  match c with
  | .killed => { l with killed := l.killed ++ [n] }
  | .failed => { l with failed := l.failed ++ [n] }
  | .succeeded => { l with succeeded := l.succeeded ++ [n] }
  | .earlyStopped => { l with earlyStopped := l.earlyStopped ++ [n] }
  | .running => { l with running := l.running ++ [n] }
  | .metricsUnavailable => { l with metricsUnavailable := l.metricsUnavailable ++ [n] }
  | .pending => { l with pending := l.pending ++ [n] }

/-- loop state of updateTrialsSummary: the lists, the running best (Go keeps the index; the model keeps the
    trial it indexes), `bestTrialValue` (initially 0) and the goal flag -/
structure Loop where
  lists : Lists := {}
  trials : Nat := 0
  best : Option TrialV := none
  bestVal : Int := 0
  goalReached : Bool := false
  deriving Repr, DecidableEq

structure Objective where
  ty : ObjType
  goal : Option Int        -- key of *Spec.Objective.Goal
  deriving Repr, DecidableEq

def stepBest (o : Objective) (s : Loop) (t : TrialV) : Loop :=
  let (text, key) := objectiveOf t
  if text = unavailable then s
  else match key with
    | none => { s with best := some t }             -- non-numeric text: "best trial is the latest"
    | some v =>
      let s1 : Loop := if s.best.isNone then { s with bestVal := v, best := some t } else s
      match o.ty with
      | .minimize =>
        let s2 : Loop := if v < s1.bestVal then { s1 with bestVal := v, best := some t } else s1
        match o.goal with
        | some g => if s2.bestVal ≤ g then { s2 with goalReached := true } else s2
        | none => s2
      | .maximize =>
        let s2 : Loop := if s1.bestVal < v then { s1 with bestVal := v, best := some t } else s1
        match o.goal with
        | some g => if g ≤ s2.bestVal then { s2 with goalReached := true } else s2
        | none => s2
      | .other => s1

def stepTrial (o : Objective) (s : Loop) (t : TrialV) : Loop :=
  let s0 : Loop := { s with trials := s.trials + 1, lists := s.lists.push (classify t) t.name }
  stepBest o s0 t

def summarise (o : Objective) (ts : List TrialV) : Loop := ts.foldl (stepTrial o) {}

/-! ### UpdateExperimentStatusCondition -/

structure Budget where
  maxTrials : Option Int
  maxFailed : Option Int
  deriving Repr, DecidableEq

structure Status where
  conds : List ECond
  completion : Option Nat      -- Status.CompletionTime (logical clock)
  deriving Repr, DecidableEq

def isSucceeded (cs : List ECond) : Bool := Cond.has cs .succeeded
def isFailed (cs : List ECond) : Bool := Cond.has cs .failed
def isCompleted (cs : List ECond) : Bool := isSucceeded cs || isFailed cs

def markRunning (cs : List ECond) (now : Nat) : List ECond := Cond.set cs .running true rRunning now

def runningFalse (cs : List ECond) (now : Nat) : List ECond :=
  match Cond.get cs .running with
  | some c => Cond.set cs .running false c.reason now
  | none => cs

def markSucceeded (cs : List ECond) (reason : String) (now : Nat) : List ECond :=
  Cond.set (runningFalse cs now) .succeeded true reason now

def markFailed (cs : List ECond) (reason : String) (now : Nat) : List ECond :=
  Cond.set (runningFalse cs now) .failed true reason now

def markRestarting (cs : List ECond) (now : Nat) : List ECond :=
  Cond.set (Cond.remove (Cond.remove cs .succeeded) .failed) .restarting true rRestarting now

structure Counts where
  succeeded : Int
  failed : Int
  killed : Int
  earlyStopped : Int
  metricsUnavailable : Int
  pending : Int
  running : Int
  deriving Repr, DecidableEq

def Counts.completed (c : Counts) : Int := c.succeeded + c.failed + c.killed + c.earlyStopped + c.metricsUnavailable
def Counts.failedish (c : Counts) : Int := c.failed + c.metricsUnavailable
def Counts.active (c : Counts) : Int := c.pending + c.running

def countsOf (l : Lists) : Counts :=
  { succeeded := l.succeeded.length, failed := l.failed.length, killed := l.killed.length,
    earlyStopped := l.earlyStopped.length, metricsUnavailable := l.metricsUnavailable.length,
    pending := l.pending.length, running := l.running.length }

def failRule (b : Budget) (c : Counts) : Bool :=
  match b.maxFailed with
  | some k => c.failedish != 0 && decide (k ≤ c.failedish)
  | none => false

def maxRule (b : Budget) (c : Counts) : Bool :=
  match b.maxTrials with
  | some m => decide (m ≤ c.completed)
  | none => false

/-- `UpdateExperimentStatusCondition` -/
def updateCondition (b : Budget) (c : Counts) (s : Status) (goalReached sugDone : Bool) (now : Nat) : Status :=
  if goalReached then { conds := markSucceeded s.conds rGoal now, completion := some now }
  else if failRule b c then { conds := markFailed s.conds rFailed now, completion := some now }
  else if maxRule b c then { conds := markSucceeded s.conds rMaxTrials now, completion := some now }
  else if sugDone && c.active == 0 then { conds := markSucceeded s.conds rSugEnd now, completion := some now }
  else { s with conds := markRunning s.conds now }

/-- `UpdateExperimentStatus`: summary always recomputed, conditions only while not completed -/
def updateStatus (o : Objective) (b : Budget) (ts : List TrialV) (s : Status) (now : Nat) : Loop × Status :=
  let l := summarise o ts
  if isCompleted s.conds then (l, s)
  else (l, updateCondition b (countsOf l.lists) s l.goalReached false now)

inductive Resume | never | longRunning | fromVolume
  deriving Repr, DecidableEq

/-- `IsCompletedExperimentRestartable` -/
def restartable (cs : List ECond) (r : Resume) : Bool :=
  isSucceeded cs && Cond.reasonOf cs .succeeded == some rMaxTrials && (r == .longRunning || r == .fromVolume)

end Katib.Exp
