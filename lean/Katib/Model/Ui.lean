import Katib.Gen.UiRoutes
/-!
# Authorisation skeleton of the UI backend handlers (C20)

The regenerated table `Katib.Gen.uiRoutes` lists, per route, the ordered `IsAuthorized` calls and data accesses of its
handler.  `guardedFrom` is the static check; `exec` is the (maximal) run of a handler under an RBAC oracle.  Core only.
-/
namespace Katib.Ui
open Katib.Gen

def isData (e : UiEv) : Bool := e.kind == "access" || e.kind == "write" || e.kind == "db" || e.kind == "clientset"

/-- an `IsAuthorized` at the top level of the handler followed by the standard guard (401 without user, 403 when denied, both returning) -/
def isGate (e : UiEv) : Bool := e.kind == "auth" && e.ctx == "top" && e.guard == "std"

/-- namespaces that are not expressions of the request: the object built from the (authorised) request, the DB keyed by trial name -/
def derivedNs (n : String) : Bool := n == "obj" || n == "trial-name-only"

/-- static check: every data access is preceded by a gate for the same namespace expression
    (derived accesses: by some gate) -/
def guardedFrom (authed : List String) : List UiEv → Bool
  | [] => true
  | e :: r =>
    if isGate e then guardedFrom (e.ns :: authed) r
    else if isData e then (authed.contains e.ns || (derivedNs e.ns && !authed.isEmpty)) && guardedFrom authed r
    else guardedFrom authed r

def guarded (r : UiRoute) : Bool := r.static || guardedFrom [] r.events

/-- the accesses a handler performs at most, for a request with/without user header under the RBAC oracle `allow` -/
def exec (hdr : Bool) (allow : String → Bool) : List UiEv → List UiEv
  | [] => []
  | e :: r =>
    if isGate e then (if hdr && allow e.ns then exec hdr allow r else [])
    else if isData e then e :: exec hdr allow r
    else exec hdr allow r

/-- the answer of the first gate: 401 without user header, 403 when denied -/
def gateStatus (hdr : Bool) (allow : String → Bool) : List UiEv → Nat
  | [] => 200
  | e :: r => if isGate e then (if !hdr then 401 else if !allow e.ns then 403 else gateStatus hdr allow r) else gateStatus hdr allow r

/-- the same when the answer of a review depends on its position in the request (resource-granular RBAC, a review that
    fails): `allow i` answers the `i`-th review -/
def gateStatusN (hdr : Bool) (allow : Nat → Bool) : List UiEv → Nat → Nat
  | [], _ => 200
  | e :: r, i => if isGate e then (if !hdr then 401 else if !allow i then 403 else gateStatusN hdr allow r (i + 1)) else gateStatusN hdr allow r i

/-- the routes of the known finding: trial-template endpoints list ConfigMaps of every namespace before reviewing -/
def templateRoute (r : UiRoute) : Bool :=
  r.events.any (fun e => e.what == "GetTrialTemplates" && e.ctx == "loop") &&
  guardedFrom [] (r.events.filter (fun e => !(e.what == "GetTrialTemplates" && e.ctx == "loop")))

end Katib.Ui
