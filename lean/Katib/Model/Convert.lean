import Katib.Gen.Enums
/-!
# Model of the CRD → gRPC converters (suggestionclient.go, nas.go, algorithm_settings.go)

Enum switches come from the regenerated tables `Katib.Gen.enumRows` / `enumDefaults`; everything else is a
field-by-field copy.  Floats and times are carried as their printed text (oracle).  Core only.
-/
namespace Katib.Conv
open Katib.Gen

/-- one generated `switch`: value of the Go constant ↦ proto constant, with the `default:` arm -/
def enumConv (fn : String) (goValue : String) : String :=
  match enumRows.find? (fun r => r.fn = fn ∧ r.goValue = goValue) with
  | some r => r.proto
  | none => ((enumDefaults.find? (fun d => d.1 = fn)).map (·.2)).getD ""

/-- the inverse reading of a proto constant (for the round trip); `none` for the default arm -/
def enumBack (fn : String) (proto : String) : Option String :=
  (enumRows.find? (fun r => r.fn = fn ∧ r.proto = proto)).map (·.goValue)

structure FeasibleSpace where
  max : String
  min : String
  list : List String
  step : String
  distribution : String
  deriving Repr, DecidableEq

structure ParameterSpec where
  name : String
  ptype : String
  fs : FeasibleSpace
  deriving Repr, DecidableEq

structure Objective where
  ty : String
  goal : Option String            -- printed float
  metric : String
  additional : List String
  deriving Repr, DecidableEq

structure Operation where
  opType : String
  params : List ParameterSpec
  deriving Repr, DecidableEq

structure NasConfig where
  numLayers : Option Int
  inputSizes : List Int
  outputSizes : List Int
  operations : List Operation
  deriving Repr, DecidableEq

structure ExpSpec where
  name : String
  algorithm : String
  settings : List (String × String)
  objective : Objective
  params : List ParameterSpec
  nas : Option NasConfig
  parallel : Option Int
  maxTrials : Option Int
  earlyStopping : Option (String × List (String × String))
  deriving Repr, DecidableEq

/-- the message as the algorithm service receives it (proto3: absent scalars read as zero values) -/
structure PExp where
  name : String
  algorithm : String
  settings : List (String × String)
  objType : String
  goal : String
  metric : String
  additional : List String
  params : List ParameterSpec       -- ptype / distribution hold proto constants
  nas : Option NasConfig
  parallel : Int
  maxTrials : Int
  earlyStopping : Option (String × List (String × String))
  deriving Repr, DecidableEq

def convFS (fs : FeasibleSpace) : FeasibleSpace := { fs with distribution := enumConv "convertDistribution" fs.distribution }
def convParam (p : ParameterSpec) : ParameterSpec :=
  { p with ptype := enumConv "convertParameterType" p.ptype, fs := convFS p.fs }
def convNas (n : NasConfig) : NasConfig :=
  { n with numLayers := some (n.numLayers.getD 0),
           operations := n.operations.map (fun o => { o with params := o.params.map convParam }) }

/-- replace the value of the first entry named `n` (`contains` returns the first index) -/
def setFirst (n v : String) : List (String × String) → List (String × String)
  | [] => []
  | a :: r => if a.1 = n then (a.1, v) :: r else a :: setFirst n v r

def overlayStep (acc : List (String × String)) (s : String × String) : List (String × String) :=
  if acc.any (fun a => a.1 = s.1) then setFirst s.1 s.2 acc else acc ++ [s]

/-- `appendAlgorithmSettingsFromSuggestion`: settings returned earlier by the service override / extend the spec's -/
def overlaySettings (spec sug : List (String × String)) : List (String × String) := sug.foldl overlayStep spec

/-- `updateAlgorithmSettings`: what the service returned is merged into `Suggestion.status.algorithmSettings` -/
def updateSettings (status reply : List (String × String)) : List (String × String) := overlaySettings status reply

/-- `ConvertExperiment` (after the overlay of the suggestion's settings) -/
def convertExperiment (e : ExpSpec) (sugSettings : List (String × String)) : PExp :=
  { name := e.name, algorithm := e.algorithm, settings := overlaySettings e.settings sugSettings,
    objType := enumConv "convertObjectiveType" e.objective.ty, goal := e.objective.goal.getD "0",
    metric := e.objective.metric, additional := e.objective.additional,
    params := e.params.map convParam, nas := e.nas.map convNas,
    parallel := e.parallel.getD 0, maxTrials := e.maxTrials.getD 0, earlyStopping := e.earlyStopping }

/-! ### trials -/

structure MetricObs where
  name : String
  min : String
  max : String
  latest : String
  deriving Repr, DecidableEq

structure TrialIn where
  name : String
  objective : Objective
  strategies : List (String × String)
  assignments : List (String × String)
  labels : List (String × String)         -- sorted by key (a Go map)
  conditions : List (String × Bool)       -- type, status == True
  startTime : String
  completionTime : String
  obs : Option (List MetricObs)
  deriving Repr, DecidableEq

structure PTrial where
  name : String
  objType : String
  goal : String
  metric : String
  additional : List String
  assignments : List (String × String)
  labels : List (String × String)
  condition : String
  startTime : String
  completionTime : String
  metrics : List (String × String)
  deriving Repr, DecidableEq

def unavailable : String := "unavailable"

/-- `convertTrialObservation`: the strategy map is built front to back, so the last entry of a name wins -/
def metricValue (strategies : List (String × String)) (m : MetricObs) : String :=
  match (strategies.reverse.find? (fun s => s.1 = m.name)).map (·.2) with
  | some "min" => if m.min = unavailable then m.latest else m.min
  | some "max" => if m.max = unavailable then m.latest else m.max
  | some "latest" => m.latest
  | _ => ""

def condHas (cs : List (String × Bool)) (ty : String) : Bool :=
  match cs.find? (fun c => c.1 = ty) with
  | some c => c.2
  | none => false

def obsAvail (t : TrialIn) : Bool :=
  match t.obs with
  | some ms => ms.any (fun m => m.name = t.objective.metric ∧ m.latest ≠ unavailable)
  | none => false

def convTrial (t : TrialIn) : PTrial :=
  { name := t.name, objType := enumConv "convertObjectiveType" t.objective.ty, goal := t.objective.goal.getD "0",
    metric := t.objective.metric, additional := t.objective.additional, assignments := t.assignments, labels := t.labels,
    condition := match t.conditions.getLast? with
      | some c => enumConv "convertTrialConditionType" c.1
      | none => "TrialStatus_CREATED",       -- proto zero value
    startTime := t.startTime, completionTime := t.completionTime,
    metrics := (t.obs.getD []).map (fun m => (m.name, metricValue t.strategies m)) }

/-- `ConvertTrials` -/
def convertTrials (ts : List TrialIn) : List PTrial :=
  (ts.filter (fun t => !condHas t.conditions "MetricsUnavailable" && !(condHas t.conditions "EarlyStopped" && !obsAvail t))).map convTrial

end Katib.Conv
