import Katib.Model.World
/-!
# External calls of the controllers and their semantics on the world

`Call` = one API write, RPC or DB call.  `applyCall` is the API-server / service semantics:
`Update`/`Status().Update` carry the `rv` of the copy they were computed from and are rejected with
Conflict when the live object has moved on; `Create` is rejected with AlreadyExists.
`Prog` = the decision tree of calls a reconcile issues (which call follows depends only on whether
the previous ones succeeded).  Core only.
-/
namespace Katib.Ctl
open Katib Katib.Exp

inductive ErrClass | fault | conflict | exists_ | notfound | error
  deriving Repr, DecidableEq

def ErrClass.str : ErrClass → String
  | .fault => "fault" | .conflict => "conflict" | .exists_ => "exists" | .notfound => "notfound" | .error => "error"

inductive Call
  | expUpdateFin (k : Key2) (rv : Nat) (fin : Bool)
  | expStatus (k : Key2) (rv : Nat) (st : ExpSt)
  | sugCreate (s : SugO)
  | sugUpdateReq (k : Key2) (rv : Nat) (req : Int)
  | sugStatus (k : Key2) (rv : Nat) (st : SugSt)
  | trialCreate (t : TrialO)
  | trialUpdateFin (k : Key2) (rv : Nat) (fin : Bool)
  | trialStatus (k : Key2) (rv : Nat) (st : TrialSt)
  | trialDelete (k : Key2)
  | jobCreate (k : Key2)
  | jobDelete (k : Key2)
  | deployCreate (k : Key2) | deployDelete (k : Key2)
  | svcCreate (k : Key2) | svcDelete (k : Key2)
  | pvcCreate (k : Key2) | saCreate (k : Key2) | roleCreate (k : Key2) | rbCreate (k : Key2)
  | rpcValidate (exp : String) | rpcValidateES
  /-- `consume` fresh names are taken from the service whatever happens afterwards; `ok = false`: the service answers with an error -/
  | rpcGetSuggestions (exp : String) (cur total : Int) (trials : List String) (consume : Nat) (ok : Bool)
  | rpcGetRules (exp : String) (ok : Bool)
  | dbGet (trial : String) | dbDelete (trial : String) | dbReport (trial : String) (e : Metrics.Entry)
  deriving Repr

def k2s (k : Key2) : String := k.ns ++ "/" ++ k.name

def Call.what : Call → String
  | .expUpdateFin k _ _ => "exp.update." ++ k2s k
  | .expStatus k _ _ => "exp.status." ++ k2s k
  | .sugCreate s => "sug.create." ++ k2s s.key
  | .sugUpdateReq k _ _ => "sug.update." ++ k2s k
  | .sugStatus k _ _ => "sug.status." ++ k2s k
  | .trialCreate t => "trial.create." ++ k2s t.key
  | .trialUpdateFin k _ _ => "trial.update." ++ k2s k
  | .trialStatus k _ _ => "trial.status." ++ k2s k
  | .trialDelete k => "trial.delete." ++ k2s k
  | .jobCreate k => "job.create." ++ k2s k
  | .jobDelete k => "job.delete." ++ k2s k
  | .deployCreate k => "deploy.create." ++ k2s k
  | .deployDelete k => "deploy.delete." ++ k2s k
  | .svcCreate k => "svc.create." ++ k2s k
  | .svcDelete k => "svc.delete." ++ k2s k
  | .pvcCreate k => "pvc.create." ++ k2s k
  | .saCreate k => "sa.create." ++ k2s k
  | .roleCreate k => "role.create." ++ k2s k
  | .rbCreate k => "rb.create." ++ k2s k
  | .rpcValidate e => "rpc.validate." ++ e
  | .rpcValidateES => "rpc.validateES"
  | .rpcGetSuggestions e cur total ts _ _ =>
    "rpc.getSuggestions." ++ e ++ "(" ++ toString cur ++ "/" ++ toString total ++ "/" ++ "+".intercalate ts ++ ")"
  | .rpcGetRules e _ => "rpc.getRules." ++ e
  | .dbGet t => "db.get." ++ t
  | .dbDelete t => "db.delete." ++ t
  | .dbReport t _ => "db.report." ++ t

/-! ### store helpers -/

def updExp (w : World) (k : Key2) (f : ExpO → ExpO) : World :=
  { w with exps := w.exps.map (fun e => if e.key = k then f e else e) }
def updTrial (w : World) (k : Key2) (f : TrialO → TrialO) : World :=
  { w with trials := w.trials.map (fun t => if t.key = k then f t else t) }
def updSug (w : World) (k : Key2) (f : SugO → SugO) : World :=
  { w with sugs := w.sugs.map (fun s => if s.key = k then f s else s) }

def createKey (l : List Key2) (k : Key2) : Except ErrClass (List Key2) :=
  if l.contains k then .error .exists_ else .ok (l ++ [k])

def freshName (exp : String) (n : Nat) : String := exp ++ "-t" ++ toString n

/-- names handed out by the algorithm service when its counter stands at `n` -/
def freshNames (exp : String) (n : Nat) : Nat → List String
  | 0 => []
  | k + 1 => freshName exp (n + 1) :: freshNames exp (n + 1) k

/-- semantics of one call on the live world (`fault` is decided by the environment, not here) -/
def applyCall (w : World) : Call → Except ErrClass World
  | .expUpdateFin k rv fin =>
    match findExp w k with
    | none => .error .notfound
    | some e => if e.rv ≠ rv then .error .conflict else .ok (updExp w k (fun e => { e with fin := fin, rv := e.rv + 1 }))
  | .expStatus k rv st =>
    match findExp w k with
    | none => .error .notfound
    | some e => if e.rv ≠ rv then .error .conflict else .ok (updExp w k (fun e => { e with st := st, rv := e.rv + 1 }))
  | .sugCreate s =>
    match findSug w s.key with
    | some _ => .error .exists_
    | none => .ok { w with sugs := w.sugs ++ [s] }
  | .sugUpdateReq k rv req =>
    match findSug w k with
    | none => .error .notfound
    | some s => if s.rv ≠ rv then .error .conflict else .ok (updSug w k (fun s => { s with requests := req, rv := s.rv + 1 }))
  | .sugStatus k rv st =>
    match findSug w k with
    | none => .error .notfound
    | some s => if s.rv ≠ rv then .error .conflict else .ok (updSug w k (fun s => { s with st := st, rv := s.rv + 1 }))
  | .trialCreate t =>
    match findTrial w t.key with
    | some _ => .error .exists_
    | none => .ok { w with trials := w.trials ++ [t] }
  | .trialUpdateFin k rv fin =>
    match findTrial w k with
    | none => .error .notfound
    | some t =>
      if t.rv ≠ rv then .error .conflict
      else if t.deleted ∧ ¬ fin then .ok { w with trials := w.trials.filter (fun t => ¬ t.key = k) }
      else .ok (updTrial w k (fun t => { t with fin := fin, rv := t.rv + 1 }))
  | .trialStatus k rv st =>
    match findTrial w k with
    | none => .error .notfound
    | some t => if t.rv ≠ rv then .error .conflict else .ok (updTrial w k (fun t => { t with st := st, rv := t.rv + 1 }))
  | .trialDelete k =>
    match findTrial w k with
    | none => .error .notfound
    | some t =>
      if t.fin then .ok (updTrial w k (fun t => { t with deleted := true, rv := t.rv + 1 }))
      else .ok { w with trials := w.trials.filter (fun t => ¬ t.key = k) }
  | .jobCreate k =>
    match findJob w k with
    | some _ => .error .exists_
    | none => .ok { w with jobs := w.jobs ++ [{ key := k }] }
  | .jobDelete k =>
    match findJob w k with
    | none => .error .notfound
    | some _ => .ok { w with jobs := w.jobs.filter (fun j => ¬ j.key = k) }
  | .deployCreate k =>
    match findDeploy w k with
    | some _ => .error .exists_
    | none => .ok { w with deploys := w.deploys ++ [{ key := k }] }
  | .deployDelete k =>
    match findDeploy w k with
    | none => .error .notfound
    | some _ => .ok { w with deploys := w.deploys.filter (fun d => ¬ d.key = k) }
  | .svcCreate k => (createKey w.svcs k).map (fun l => { w with svcs := l })
  | .svcDelete k => if w.svcs.contains k then .ok { w with svcs := w.svcs.filter (fun x => ¬ x = k) } else .error .notfound
  | .pvcCreate k => (createKey w.pvcs k).map (fun l => { w with pvcs := l })
  | .saCreate k => (createKey w.sas k).map (fun l => { w with sas := l })
  | .roleCreate k => (createKey w.roles k).map (fun l => { w with roles := l })
  | .rbCreate k => (createKey w.rbs k).map (fun l => { w with rbs := l })
  | .rpcValidate _ => .ok w
  | .rpcValidateES => .ok w
  | .rpcGetSuggestions _ _ _ _ consume ok =>
    if ok then .ok { w with algoN := w.algoN + consume } else .error .error
  | .rpcGetRules _ ok => if ok then .ok w else .error .error
  | .dbGet _ => .ok w
  | .dbDelete t => .ok { w with db := w.db.filter (fun p => ¬ p.1 = t) }
  | .dbReport t e =>
    if w.db.any (fun p => p.1 = t) then .ok { w with db := w.db.map (fun p => if p.1 = t then (p.1, p.2 ++ [e]) else p) }
    else .ok { w with db := w.db ++ [(t, [e])] }

inductive Res | ok | requeue | requeueAfter | err
  deriving Repr, DecidableEq

def Res.str : Res → String
  | .ok => "ok" | .requeue => "requeue" | .requeueAfter => "requeueAfter" | .err => "err"

/-- the decision tree of one reconcile -/
inductive Prog
  | done (r : Res)
  | step (c : Call) (ok : Prog) (fail : Prog)
  deriving Repr

/-- every call that occurs anywhere in the tree (on some path) -/
def Prog.calls : Prog → List Call
  | .done _ => []
  | .step c ok fail => c :: (ok.calls ++ fail.calls)

/-- environment of one reconcile: which external calls fail -/
structure Faults where
  mask : Nat := 0
  abort : Option Nat := none
  deriving Repr

def Faults.fails (f : Faults) (i : Nat) : Bool :=
  (match f.abort with | some a => decide (a ≤ i) | none => false) || (i < 64 && (f.mask / 2 ^ i) % 2 == 1)

structure Out where
  w : World
  res : Res
  log : List String
  deriving Repr

/-- run a decision tree from call number `i` -/
def exec (f : Faults) : Prog → World → Nat → List String → Out
  | .done r, w, _, log => { w := w, res := r, log := log }
  | .step c ok fail, w, i, log =>
    if f.fails i then exec f fail w (i + 1) (log ++ [c.what ++ ":fault"])
    else
      match applyCall w c with
      | .ok w' => exec f ok w' (i + 1) (log ++ [c.what ++ ":ok"])
      | .error e => exec f fail w (i + 1) (log ++ [c.what ++ ":" ++ e.str])

end Katib.Ctl
