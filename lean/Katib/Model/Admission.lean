import Katib.Model.Template
/-!
# Model of Experiment admission (experiment_defaults.go `SetDefault`, validator.go `ValidateExperiment` for creation)

The Experiment is abstracted to the fields the defaulter and the validator read; every pointer the Go code can find nil is an
`Option`, and a dereference of `none` is the outcome `crash`.  Engines (regexp compile, JSON/YAML conversion of the dry-run
template, batch/v1 Job conversion, katib-config lookups, `strconv.Atoi`, reference regexps) are oracle bits supplied with
the input.  Errors are the `field.Error` paths prefixed by the error type letter, in the validator's order.  Core only.
-/
namespace Katib.Adm
open Katib

/-! ### name rules (on character lists) -/

def lowerAlpha (c : Char) : Bool := 'a'.val ≤ c.val && c.val ≤ 'z'.val
def digit (c : Char) : Bool := '0'.val ≤ c.val && c.val ≤ '9'.val
def alnum (c : Char) : Bool := lowerAlpha c || digit c
def labelChar (c : Char) : Bool := alnum c || c == '-'

/-- `[-a-z0-9]*[a-z0-9]` : the tail of a label after its first character, when non-empty -/
def tailOk (r : List Char) : Bool :=
  r.all labelChar && (match r.getLast? with | none => true | some l => alnum l)

/-- `^[a-z]([-a-z0-9]*[a-z0-9])?$` (Go's `$` matches only at the end of the text) -/
def nameRe : List Char → Bool
  | [] => false
  | c :: r => lowerAlpha c && tailOk r

/-- the validator's rule for `metadata.name` -/
def nameAdmitted (s : List Char) : Bool := nameRe s && decide (s.length ≤ 40)

/-- RFC 1035 label (what a Service name must be): the same expression, at most 63 characters -/
def dns1035 (s : List Char) : Bool := nameRe s && decide (s.length ≤ 63)

/-- RFC 1123 label (Deployment/PVC/Trial/Job names are subdomains; a label is one) -/
def dns1123Label : List Char → Bool
  | [] => false
  | c :: r => alnum c && tailOk r && decide ((c :: r).length ≤ 63)

/-- `<experiment>-<algorithm>`: the Suggestion's Deployment, Service, PVC and RBAC names -/
def suggestionName (exp algo : List Char) : List Char := exp ++ '-' :: algo
/-- `<experiment>-<8 random characters>`: Trial (and Job) names -/
def trialName (exp suffix : List Char) : List Char := exp ++ '-' :: suffix

/-- an algorithm name that keeps derived names legal (katib-config does not constrain it: known finding) -/
def algoOk (a : List Char) : Bool := !a.isEmpty && tailOk a && decide (a.length ≤ 22)

/-! ### budget -/

structure Budget where
  max : Option Int
  parallel : Option Int
  maxFailed : Option Int
  deriving Repr, DecidableEq

def defaultParallel : Int := 3

def Budget.setDefault (b : Budget) : Budget := { b with parallel := some (b.parallel.getD defaultParallel) }

def budgetErrs (b : Budget) : List String :=
  (match b.maxFailed with | some f => if f < 0 then ["I:spec.maxFailedTrialCount"] else [] | none => []) ++
  (match b.max with | some m => if m ≤ 0 then ["I:spec.maxTrialCount"] else [] | none => []) ++
  (match b.parallel with | some p => if p ≤ 0 then ["I:spec.parallelTrialCount"] else [] | none => []) ++
  (match b.maxFailed, b.max with | some f, some m => if f > m then ["I:spec.maxFailedTrialCount"] else [] | _, _ => []) ++
  (match b.parallel, b.max with | some p, some m => if p > m then ["I:spec.parallelTrialCount"] else [] | _, _ => [])

/-! ### objective, algorithm, early stopping, resume policy, parameters -/

structure Objective where
  typ : String
  metric : String
  additional : List String
  deriving Repr, DecidableEq

def objectiveErrs : Option Objective → List String
  | none => ["R:spec.objective"]
  | some o =>
    (if o.typ ≠ "minimize" ∧ o.typ ≠ "maximize" then ["I:spec.objective.type"] else []) ++
    (if o.metric = "" then ["R:spec.objective.objectiveMetricName"] else []) ++
    (if o.additional.contains o.metric then ["I:spec.objective.additionalMetricNames"] else [])

/-- algorithm name and whether katib-config knows it -/
def algorithmErrs (a : Option String) (known : Bool) : List String :=
  match a with
  | none => ["R:spec.algorithm"]
  | some n => (if n = "" then ["R:spec.algorithm.algorithmName"] else []) ++ (if known then [] else ["I:spec.algorithm.algorithmName"])

def earlyStoppingErrs (a : Option String) (known : Bool) : List String :=
  match a with
  | none => []
  | some n => (if n = "" then ["R:spec.earlyStopping.algorithmName"] else []) ++ (if known then [] else ["I:spec.earlyStopping.algorithmName"])

def resumeErrs (r : String) : List String :=
  if r = "" ∨ r = "Never" ∨ r = "LongRunning" ∨ r = "FromVolume" then [] else ["I:spec.resumePolicy"]

structure Param where
  name : String
  ptype : String
  min : String
  max : String
  step : String
  list : List String
  dist : String
  deriving Repr, DecidableEq

def Param.setDefault (p : Param) : Param := if p.dist = "" then { p with dist := "uniform" } else p

/-- `equality.Semantic.DeepEqual(space, FeasibleSpace{})` (a nil and an empty list are semantically equal) -/
def Param.spaceEmpty (p : Param) : Bool := p.min = "" && p.max = "" && p.step = "" && p.list.isEmpty && p.dist = ""

def paramErrsAt (seen : List String) (i : Nat) (p : Param) : List String :=
  let at_ := "spec.parameters[" ++ toString i ++ "]"
  (if p.name = "" ∨ seen.contains p.name then ["I:" ++ at_ ++ ".name"] else []) ++
  (if p.ptype ∉ ["int", "double", "categorical", "discrete", "unknown"] then ["I:" ++ at_ ++ ".parameterType"] else []) ++
  (if p.dist ≠ "" ∧ p.dist ∉ ["uniform", "logUniform", "normal", "logNormal", "unknown"] then ["I:" ++ at_ ++ ".feasibleSpace.distribution"] else []) ++
  (if p.spaceEmpty then ["R:" ++ at_ ++ ".feasibleSpace"]
   else if p.ptype = "double" ∨ p.ptype = "int" then
     (if p.list.length > 0 then ["I:" ++ at_ ++ ".feasibleSpace.list"] else []) ++
     (if p.max = "" ∨ p.min = "" then ["R:" ++ at_ ++ ".feasibleSpace.max"] else [])
   else if p.ptype = "categorical" ∨ p.ptype = "discrete" then
     (if p.max ≠ "" ∨ p.min ≠ "" ∨ p.step ≠ "" then ["I:" ++ at_ ++ ".feasibleSpace"] else [])
   else [])

def paramErrsFrom (seen : List String) (i : Nat) : List Param → List String
  | [] => []
  | p :: r => paramErrsAt seen i p ++ paramErrsFrom (p.name :: seen) (i + 1) r

def paramErrs (ps : List Param) : List String := paramErrsFrom [] 0 ps

/-! ### metrics collector: defaults, then the validator's dereferences -/

structure FSP where
  path : String
  kind : String
  format : String
  deriving Repr, DecidableEq

/-- `HttpGet`: path; `Port.String() == "0"`; `Atoi(Port.String()) > 0` (oracle) -/
structure HttpGet where
  path : String
  portZero : Bool
  portPositive : Bool
  deriving Repr, DecidableEq

/-- one filter expression: compiles, has two top-level groups (oracles) -/
structure FilterRe where
  compiles : Bool
  twoGroups : Bool
  deriving Repr, DecidableEq

structure Source where
  fsp : Option FSP
  httpGet : Option HttpGet
  filter : Option (List FilterRe)
  deriving Repr, DecidableEq

structure Collector where
  kind : String
  custom : Bool       -- customCollector container present
  deriving Repr, DecidableEq

structure MC where
  collector : Option Collector
  source : Option Source
  deriving Repr, DecidableEq

def emptySource : Source := { fsp := none, httpGet := none, filter := none }

/-- `setDefaultMetricsCollector` -/
def setDefaultMC (m : Option MC) : MC :=
  let m0 := m.getD { collector := none, source := none }
  let col := m0.collector.getD { kind := "StdOut", custom := false }
  let m1 : MC := { m0 with collector := some col }
  if col.kind = "PrometheusMetric" then
    let s := m1.source.getD emptySource
    let h := s.httpGet.getD { path := "", portZero := true, portPositive := false }
    let h1 := if h.path = "" then { h with path := "/metrics" } else h
    let h2 := if h1.portZero then { h1 with portZero := false, portPositive := true } else h1
    { m1 with source := some { s with httpGet := some h2 } }
  else if col.kind = "File" then
    let s := m1.source.getD emptySource
    let f := s.fsp.getD { path := "", kind := "", format := "" }
    let f1 := if f.kind = "" then { f with kind := "File" } else f
    let f2 := if f1.path = "" then { f1 with path := "/var/log/katib/metrics.log" } else f1
    let f3 := if f2.format = "" then { f2 with format := "TEXT" } else f2
    { m1 with source := some { s with fsp := some f3 } }
  else if col.kind = "TensorFlowEvent" then
    let s := m1.source.getD emptySource
    let f := s.fsp.getD { path := "", kind := "", format := "" }
    let f1 := if f.kind = "" then { f with kind := "Directory" } else f
    let f2 := if f1.path = "" then { f1 with path := "/var/log/katib/tfevent/" } else f1
    { m1 with source := some { s with fsp := some f2 } }
  else m1

inductive Outcome where
  | crash
  | errs (l : List String)
  deriving Repr, DecidableEq

def isAbs (p : String) : Bool := p.startsWith "/"

def filterErrs (s : Option Source) : List String :=
  match s with
  | some { filter := some fs, .. } =>
    fs.flatMap (fun f => if !f.compiles then ["I:spec.metricsCollectorSpec.source.filter.metricsFormat"]
                         else if !f.twoGroups then ["I:spec.metricsCollectorSpec.source.filter.metricsFormat"] else [])
  | _ => []

/-- `validateMetricsCollector`; `cfgKnown`: katib-config has an entry for an auto-injected kind -/
def validateMC (m : Option MC) (cfgKnown : Bool) : Outcome :=
  match m with
  | none => .crash
  | some m =>
  match m.collector with
  | none => .crash
  | some col =>
    let k := col.kind
    let e0 := if k ∈ ["StdOut", "File", "TensorFlowEvent", "PrometheusMetric"] ∧ !cfgKnown then ["I:spec.metricsCollectorSpec.collector.kind"] else []
    if k = "Push" ∨ k = "StdOut" then .errs e0
    else if k = "File" then
      let bad := match m.source with
        | some { fsp := some f, .. } => f.kind ≠ "File" || !isAbs f.path
        | _ => true
      let e1 := if bad then ["R:spec.metricsCollectorSpec.source.fileSystemPath.path"] else []
      match m.source with
      | none => .crash
      | some s =>
        match s.fsp with
        | none => .crash
        | some f =>
          let e2 := if f.format ≠ "TEXT" ∧ f.format ≠ "JSON" then ["R:spec.metricsCollectorSpec.source.fileSystemPath.format"] else []
          let e3 := if f.format = "JSON" ∧ s.filter.isSome then ["I:spec.metricsCollectorSpec.source.filter"] else []
          .errs (e0 ++ e1 ++ e2 ++ e3 ++ filterErrs m.source)
    else if k = "TensorFlowEvent" then
      let bad := match m.source with
        | some { fsp := some f, .. } => f.kind ≠ "Directory" || !isAbs f.path
        | _ => true
      let e1 := if bad then ["R:spec.metricsCollectorSpec.source"] else []
      match m.source with
      | none => .crash
      | some s =>
        match s.fsp with
        | none => .crash
        | some f =>
          let e2 := if f.format ≠ "" then ["I:spec.metricsCollectorSpec.source.fileSystemPath.format"] else []
          .errs (e0 ++ e1 ++ e2 ++ filterErrs m.source)
    else if k = "PrometheusMetric" then
      match m.source with
      | none => .crash
      | some s =>
        match s.httpGet with
        | none => .crash
        | some h =>
          let e1 := if !h.portPositive then ["I:spec.metricsCollectorSpec.source.httpGet.port"] else []
          let e2 := if !h.path.startsWith "/" then ["I:spec.metricsCollectorSpec.source.httpGet.path"] else []
          .errs (e0 ++ e1 ++ e2 ++ filterErrs m.source)
    else if k = "Custom" then
      let e1 := if !col.custom then ["R:spec.metricsCollectorSpec.collector.customCollector"] else []
      let e2 := match m.source with
        | some { fsp := some f, .. } => if !isAbs f.path || (f.kind ≠ "Directory" ∧ f.kind ≠ "File") then ["I:spec.metricsCollectorSpec.source.fileSystemPath"] else []
        | _ => []
      .errs (e0 ++ e1 ++ e2 ++ filterErrs m.source)
    else .errs (e0 ++ ["I:spec.metricsCollectorSpec.collector.kind"] ++ filterErrs m.source)

/-! ### trial template -/

structure TP where
  name : String
  ref : String
  isMeta : Bool          -- the validator's `isMetaKey(reference)` (regexp oracle)
  gref : Tpl.Ref         -- how the generator reads the reference (regexp oracle)
  deriving Repr, DecidableEq

inductive KindClass | job | kubeflow | other
  deriving Repr, DecidableEq

structure Tmpl where
  primary : String
  success : String
  failure : String
  tparams : Option (List TP)
  hasSpec : Bool
  hasCM : Bool
  cmComplete : Bool
  kindClass : KindClass
  text : Option String        -- `GetTrialTemplate` (none: error)
  deriving Repr, DecidableEq

/-- oracles evaluated on the dry-run template (every declared placeholder replaced by `test-value`) -/
structure DryRun where
  leftover : Bool             -- an undeclared `${trialParameters.x}` is left
  parses : Bool               -- converts to an unstructured object
  nameOmitted : Bool          -- metadata.name and metadata.namespace are empty
  gvkSet : Bool               -- apiVersion and kind are set
  jobOk : Bool                -- batch/v1 Job conversion (true for other kinds)
  deriving Repr, DecidableEq

def jobSuccess := "status.conditions.#(type==\"Complete\")#|#(status==\"True\")#"
def jobFailure := "status.conditions.#(type==\"Failed\")#|#(status==\"True\")#"
def kfSuccess := "status.conditions.#(type==\"Succeeded\")#|#(status==\"True\")#"
def kfFailure := "status.conditions.#(type==\"Failed\")#|#(status==\"True\")#"

/-- `setDefaultTrialTemplate` (conditions only) -/
def Tmpl.setDefault (t : Tmpl) : Tmpl :=
  if !t.hasSpec then t else
  match t.kindClass with
  | .job => { t with success := if t.success = "" then jobSuccess else t.success, failure := if t.failure = "" then jobFailure else t.failure }
  | .kubeflow => { t with success := if t.success = "" then kfSuccess else t.success, failure := if t.failure = "" then kfFailure else t.failure }
  | .other => t

def placeholderOf (n : String) : List Char := Tpl.ph n.toList
def testValue : List Char := "test-value".toList

def containsSub (pat s : List Char) : Bool :=
  match s with
  | [] => pat.isEmpty
  | c :: r => pat.isPrefixOf (c :: r) || containsSub pat r

/-- the loop over `trialParameters`: errors, early return flag, names and references seen, dry-run text -/
structure LoopSt where
  errs : List String
  names : List String
  refs : List String
  text : List Char
  stopped : Bool

def tpStep (paramNames : List String) (st : LoopSt) (ip : Nat × TP) : LoopSt :=
  if st.stopped then st else
  let i := ip.1
  let p := ip.2
  let at_ := "spec.trialTemplate.trialParameters[" ++ toString i ++ "]"
  if p.name = "" ∨ p.ref = "" ∨ p.name.toList.contains '{' ∨ p.name.toList.contains '}' then { st with errs := st.errs ++ ["I:" ++ at_] }
  else if st.names.contains p.name then { st with errs := st.errs ++ ["I:" ++ at_ ++ ".name"] }
  else if st.refs.contains p.ref then { st with errs := st.errs ++ ["I:" ++ at_ ++ ".reference"] }
  else
    let e1 := if !paramNames.isEmpty ∧ !p.isMeta ∧ !paramNames.contains p.ref then ["I:" ++ at_ ++ ".reference"] else []
    let st1 := { st with names := p.name :: st.names, refs := p.ref :: st.refs, errs := st.errs ++ e1 }
    if !containsSub (placeholderOf p.name) st.text then { st1 with errs := st1.errs ++ ["I:" ++ at_ ++ ".name"], stopped := true }
    else { st1 with text := Tpl.replaceAll (placeholderOf p.name) testValue st.text }

def enum {α : Type} : Nat → List α → List (Nat × α)
  | _, [] => []
  | i, a :: r => (i, a) :: enum (i + 1) r

def tpLoop (paramNames : List String) (tps : List TP) (text : List Char) : LoopSt :=
  (enum 0 tps).foldl (tpStep paramNames) { errs := [], names := [], refs := [], text := text, stopped := false }

/-- `validateTrialTemplate`; `dry` maps the model's dry-run text to the oracle bits (the harness evaluates them on its own
    dry-run text, which the driver compares with the model's) -/
def templateTail (t : Tmpl) (tps : List TP) (paramNames : List String) (dry : DryRun) : List String :=
  if !t.hasSpec ∧ !t.hasCM then ["R:spec.trialTemplate.TrialSource"]
  else if t.hasSpec ∧ t.hasCM then ["R:spec.trialTemplate"]
  else if t.hasCM ∧ !t.cmComplete then ["R:spec.trialTemplate.configMap"]
  else match t.text with
  | none => ["I:spec.trialTemplate"]
  | some text =>
    let st := tpLoop paramNames tps text.toList
    if st.stopped then st.errs
    else
      let e3 := if dry.leftover then ["I:spec.trialTemplate"] else []
      if !dry.parses then st.errs ++ e3 ++ ["I:spec.trialTemplate"]
      else
        st.errs ++ e3 ++
        (if !dry.nameOmitted then ["I:spec.trialTemplate"] else []) ++
        (if !dry.gvkSet then ["R:spec.trialTemplate"] else []) ++
        (if !dry.jobOk then ["I:spec.trialTemplate"] else [])

def templateErrs (t : Option Tmpl) (paramNames : List String) (dry : DryRun) : List String :=
  match t with
  | none => ["R:spec.trialTemplate"]
  | some t =>
    (if t.primary = "" then ["R:spec.trialTemplate.primaryContainerName"] else []) ++
    (if t.success = "" ∨ t.failure = "" then ["R:spec.trialTemplate"] else []) ++
    (match t.tparams with
     | none => ["R:spec.trialTemplate.trialParameters"]
     | some tps => templateTail t tps paramNames dry)

/-- the dry-run text the validator hands to the JSON conversion (none: the loop returned early or there is no text) -/
def dryText (t : Option Tmpl) (paramNames : List String) : Option (List Char) :=
  match t with
  | some { tparams := some tps, text := some text, .. } =>
    let st := tpLoop paramNames tps text.toList
    if st.stopped then none else some st.text
  | _ => none

/-! ### the Experiment -/

structure Exp where
  name : String
  budget : Budget
  objective : Option Objective
  algorithm : Option String
  algoKnown : Bool
  earlyStopping : Option String
  esKnown : Bool
  resume : String
  params : List Param
  nas : Bool
  template : Option Tmpl
  dry : DryRun
  mc : Option MC
  mcCfgKnown : Bool

/-- `Experiment.SetDefault` on the modelled fields (objective strategies are not modelled) -/
def Exp.setDefault (e : Exp) : Exp :=
  { e with budget := e.budget.setDefault,
           resume := if e.resume = "" then "Never" else e.resume,
           template := e.template.map Tmpl.setDefault,
           mc := some (setDefaultMC e.mc),
           params := e.params.map Param.setDefault }

def nameErrs (n : String) : List String := if nameAdmitted n.toList then [] else ["I:metadata.name"]

/-- `ValidateExperiment(instance, nil)` -/
def validate (e : Exp) : Outcome :=
  let head := nameErrs e.name ++ budgetErrs e.budget
  match e.objective with
  | none => .errs (head ++ objectiveErrs none)
  | some o =>
    if objectiveErrs (some o) ≠ [] then .errs (head ++ objectiveErrs (some o))
    else
      let names := e.params.map (·.name)
      let mid := head ++ algorithmErrs e.algorithm e.algoKnown ++ earlyStoppingErrs e.earlyStopping e.esKnown ++ resumeErrs e.resume ++
        templateErrs e.template names e.dry ++
        (if e.params.isEmpty ∧ !e.nas then ["R:spec"] else []) ++
        (if !e.params.isEmpty ∧ e.nas then ["I:spec"] else []) ++
        paramErrs e.params
      match validateMC e.mc e.mcCfgKnown with
      | .crash => .crash
      | .errs l => .errs (mid ++ l)

def admitted (e : Exp) : Bool := validate e.setDefault == .errs []

end Katib.Adm
