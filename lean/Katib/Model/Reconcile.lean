import Katib.Model.Api
/-!
# Executable models of the three reconcilers (DESIGN.md §4.1, layer 2)

`expPlan`, `sugPlan`, `trialPlan` mirror `ReconcileExperiment.Reconcile`, `ReconcileSuggestion.Reconcile`
and `ReconcileTrial.Reconcile` branch for branch.  Each reads a *view* `v` (typed kinds from lagging
snapshots, run objects / DB / algorithm counter live) and yields the decision tree of external calls.
Core only.
-/
namespace Katib.Ctl
open Katib Katib.Exp

def insertS (x : String) : List String → List String
  | [] => [x]
  | y :: ys => if x ≤ y then x :: y :: ys else y :: insertS x ys
def sortS (l : List String) : List String := l.foldr insertS []

/-! ## Experiment controller -/

def sugRunningFalse (cs : List SCond) (reason : String) (now : Nat) : List SCond :=
  match Cond.get cs .running with
  | some _ => Cond.set cs .running false reason now
  | none => cs

/-- `MarkSuggestionStatusSucceeded` -/
def sugMarkSucceeded (cs : List SCond) (reason : String) (now : Nat) : List SCond :=
  let c1 := sugRunningFalse cs rSugSucceededRunning now
  let c2 := match Cond.get c1 .deploymentReady with
    | some _ => Cond.set c1 .deploymentReady false rSugSucceededRunning now
    | none => c1
  Cond.set c2 .succeeded true reason now

/-- `MarkSuggestionStatusRunning` (drops Succeeded first) -/
def sugMarkRunning (cs : List SCond) (st : Bool) (reason : String) (now : Nat) : List SCond :=
  Cond.set (Cond.remove cs .succeeded) .running st reason now

/-- `MarkSuggestionStatusFailed` -/
def sugMarkFailed (cs : List SCond) (reason : String) (now : Nat) : List SCond :=
  let c1 := match Cond.get cs .running with
    | some c => Cond.set cs .running false c.reason now
    | none => cs
  Cond.set c1 .failed true reason now

def countsOfLists (l : Lists) : List Nat :=
  [l.killed.length, l.failed.length, l.succeeded.length, l.earlyStopped.length, l.running.length,
   l.metricsUnavailable.length, l.pending.length]

def cnt (c : List Nat) (i : Nat) : Int := ((c.getD i 0 : Nat) : Int)

/-- the Trial object `getTrialInstance` builds for an assignment -/
def mkTrial (e : ExpO) (name : String) : TrialO :=
  { key := { ns := e.key.ns, name := name }, exp := e.key.name, retain := e.cfg.retain, push := e.cfg.push,
    objType := e.cfg.objType }

/-- `UpdateExperimentStatus` on the stored status -/
def expUpdateStatus (e : ExpO) (st : ExpSt) (ts : List TrialO) (now : Nat) : ExpSt :=
  let tv := ts.map toTrialV
  let (l, s) := updateStatus { ty := e.cfg.objType, goal := e.cfg.goal } { maxTrials := e.maxT, maxFailed := e.maxF } tv
    { conds := st.conds, completion := st.completion } now
  let (opt, optObs) := match l.best with
    | some b => (some b.name, match ts.find? (fun t => t.key.name = b.name) with
        | some t => t.st.obs.getD []
        | none => [])
    | none => (st.opt, st.optObs)
  { st with conds := s.conds, completion := s.completion, lists := l.lists, trials := l.trials,
            counts := countsOfLists l.lists, opt := opt, optObs := optObs }

def expFinish (e : ExpO) (st : ExpSt) : Prog :=
  if st = e.st then .done .ok else .step (.expStatus e.key e.rv st) (.done .ok) (.done .requeue)

/-- `createTrials` + `ReconcileSuggestions` -/
def expCreateTrials (v : World) (e : ExpO) (st : ExpSt) (ts : List TrialO) (add : Int) (now : Nat) : Prog :=
  let current : Int := ts.length
  let ies : Int := (ts.filter (fun t => !obsAvailable t.st && tHas t .earlyStopped)).length
  let req := current + add - ies
  match findSug v e.key with
  | none =>
    .step (.sugCreate { key := e.key, requests := req, resume := e.cfg.resume, es := e.cfg.es }) (expFinish e st) (.done .err)
  | some s =>
    if sHas s .failed then expFinish e { st with conds := markFailed st.conds rFailed now }
    else
      let assignments := if (s.st.names.length : Int) > current
        then s.st.names.filter (fun n => !(ts.any (fun t => t.key.name = n))) else []
      let creates := assignments.foldr (fun a k => Prog.step (.trialCreate (mkTrial e a)) k k) (expFinish e st)
      if s.requests ≠ req then .step (.sugUpdateReq e.key s.rv req) creates (.done .err) else creates

def activeCount (st : ExpSt) : Int := cnt st.counts 6 + cnt st.counts 4
def completedCount (st : ExpSt) : Int :=
  cnt st.counts 2 + cnt st.counts 1 + cnt st.counts 0 + cnt st.counts 3 + cnt st.counts 5

/-- `addCount = min(maxTrialCount − completed, parallelTrialCount) − active`, clamped at 0 -/
def addCount (e : ExpO) (st : ExpSt) : Int :=
  let required := match e.maxT with
    | none => e.par
    | some m => if m - completedCount st > e.par then e.par else m - completedCount st
  if required - activeCount st < 0 then 0 else required - activeCount st

/-- `ReconcileTrials` -/
def expReconcileTrials (v : World) (e : ExpO) (st : ExpSt) (ts : List TrialO) (now : Nat) : Prog :=
  if activeCount st > e.par then .done .err        -- deleteTrials: shown unreachable without a spec edit; not modelled further
  else if activeCount st < e.par then
    if addCount e st > 0 then expCreateTrials v e st ts (addCount e st) now else expFinish e st
  else expFinish e st

/-- `ReconcileExperiment` and what follows it in `Reconcile` -/
def expMain (v : World) (e : ExpO) (st : ExpSt) (now : Nat) : Prog :=
  if !Cond.has st.conds .created then
    expFinish e { st with started := true, conds := Cond.set st.conds .created true rCreated now }
  else
    let ts := trialsOf v e.key
    let st1 := if ts.isEmpty then st else expUpdateStatus e st ts now
    if !isCompleted st1.conds then expReconcileTrials v e st1 ts now else expFinish e st1

def restartGuard (e : ExpO) : Bool :=
  restartable e.st.conds e.cfg.resume &&
    (match e.maxT with
     | some m => decide (m > (e.st.trials : Int))
     | none => e.st.trials != 0)

def expPlan (v : World) (k : Key2) (now : Nat) : Prog :=
  match findExp v k with
  | none => .done .ok
  | some e =>
    if !e.deleted && !e.fin then .step (.expUpdateFin k e.rv true) (.done .requeue) (.done .err)
    else if e.deleted && e.fin then .step (.expUpdateFin k e.rv false) (.done .requeue) (.done .err)
    else if isCompleted e.st.conds then
      let sug := findSug v k
      let cleanup (next : Prog) : Prog :=
        if e.cfg.resume = .never ∨ e.cfg.resume = .fromVolume then
          match sug with
          | none => next
          | some s =>
            if sCompleted s || sRestarting s then next
            else .step (.sugStatus k s.rv { s.st with conds := sugMarkSucceeded s.st.conds rSugExpSucceeded now }) next (.done .err)
        else next
      if restartGuard e then
        let st1 := { e.st with conds := markRestarting e.st.conds now }
        let restart (next : Prog) : Prog :=
          if e.cfg.resume = .fromVolume then
            match sug with
            | none => next
            | some s =>
              if sRestarting s then next
              else .step (.sugStatus k s.rv { s.st with conds := sugMarkRunning s.st.conds false rSugRestart now }) next (.done .err)
          else next
        cleanup (restart (expMain v e st1 now))
      else if cnt e.st.counts 4 == 0 then cleanup (.done .ok)
      else cleanup (expMain v e e.st now)
    else expMain v e e.st now

/-! ## Trial controller -/

def trialRunningFalse (cs : List TCond) (now : Nat) : List TCond :=
  match Cond.get cs .running with
  | some c => Cond.set cs .running false c.reason now
  | none => cs

/-- `MarkTrialStatusSucceeded/Failed/MetricsUnavailable` -/
def tMark (cs : List TCond) (ty : TCT) (reason : String) (now : Nat) : List TCond :=
  Cond.set (trialRunningFalse cs now) ty true reason now

inductive JobCond | succeeded | failed | running
  deriving Repr, DecidableEq

def trialFinish (t : TrialO) (st : TrialSt) : Prog :=
  if st = t.st then .done .ok else .step (.trialStatus t.key t.rv st) (.done .ok) (.done .requeue)

def unavailableEntry : Metrics.Entry := { metric := objMetric, text := Metrics.unavailable, key := none, ts := some (-1) }

/-- `UpdateTrialStatusCondition` -/
def trialUpdateCondition (t : TrialO) (st : TrialSt) (js : JobCond) (now : Nat) : Prog :=
  let has (c : TCT) := Cond.has st.conds c
  match js with
  | .succeeded =>
    if obsAvailable st && !has .succeeded then
      if !has .earlyStopped then
        trialFinish t { st with conds := tMark st.conds .succeeded rTrialSucceeded now, completion := some now }
      else trialFinish t st
    else if !has .metricsUnavailable then
      let k := trialFinish t { st with conds := tMark st.conds .metricsUnavailable rTrialMU now, completion := some now }
      if t.push then .step (.dbReport t.key.name unavailableEntry) k (.done .requeueAfter) else k
    else trialFinish t st
  | .failed =>
    if !has .failed && !has .earlyStopped then
      trialFinish t { st with conds := tMark st.conds .failed rTrialFailed now, completion := some now }
    else trialFinish t st
  | .running =>
    if !has .running && !has .earlyStopped then
      trialFinish t { st with conds := Cond.set st.conds .running true rTrialRunning now }
    else trialFinish t st

/-- `GetDeployedJobStatus`: failure condition first, then success, else "running" unless the Trial already is -/
def jsOf (state : JobState) (running : Bool) : Option JobCond :=
  match state with
  | .failed => some .failed
  | .both => some .failed
  | .succeeded => some .succeeded
  | .running => if !running then some .running else none

/-- `reconcileTrial` once the job status `js` is known: read the observation when due, requeue while a succeeded
    job's metrics are missing, else update the conditions -/
def trialObserve (v : World) (t : TrialO) (js : JobCond) (now : Nat) : Prog :=
  let cont (st : TrialSt) : Prog :=
    if js = .succeeded && st.obs.isNone && !t.push then .done .requeueAfter
    else trialUpdateCondition t st js now
  if js = .succeeded || tHas t .earlyStopped then
    let logs := dbOf v t.key.name
    if logs.isEmpty then .step (.dbGet t.key.name) (cont t.st) (.done .err)
    else match Metrics.getMetrics logs [objMetric] with
      | some ms => .step (.dbGet t.key.name) (cont { t.st with obs := some (ms.map (fun m => { m with lastTs := none })) }) (.done .err)
      | none => .step (.dbGet t.key.name) (.done .err) (.done .err)
  else cont t.st

/-- the part of `reconcileTrial` after `reconcileJob` returned a deployed job in state `state` -/
def trialAfterJob (v : World) (t : TrialO) (state : JobState) (now : Nat) : Prog :=
  if !(!tCompleted t || tHas t .earlyStopped) then trialFinish t t.st
  else
    match jsOf state (tHas t .running) with
    | none => trialFinish t t.st
    | some js => trialObserve v t js now

def trialPlan (v : World) (k : Key2) (now : Nat) : Prog :=
  match findTrial v k with
  | none => .done .ok
  | some t =>
    if !t.deleted && !t.fin then .step (.trialUpdateFin k t.rv true) (.done .requeue) (.done .err)
    else if t.deleted && t.fin then
      .step (.dbDelete k.name) (.step (.trialUpdateFin k t.rv false) (.done .requeue) (.done .err)) (.done .err)
    else if !tHas t .created then
      trialFinish t { t.st with started := true, conds := Cond.set t.st.conds .created true rTrialCreated now }
    else
      match findJob v k with
      | none =>
        if tCompleted t then trialFinish t t.st
        else .step (.jobCreate k) (trialAfterJob v t .running now) (.done .err)
      | some j =>
        if tCompleted t && !t.retain then .step (.jobDelete k) (.done .ok) (.done .err)
        else trialAfterJob v t j.state now

/-! ## Suggestion controller -/

structure SugEnv where
  algoMode : Nat := 0      -- 0 ok, 1 short, 2 long, 3 error
  esMode : Nat := 0        -- 0 ok, 1 error
  deriving Repr

def infraKey (k : Key2) : Key2 := { ns := k.ns, name := k.name ++ "-random" }

def sugFinish (s : SugO) (st : SugSt) : Prog :=
  if st = s.st then .done .ok else .step (.sugStatus s.key s.rv st) (.done .ok) (.done .requeue)

/-- `updateStatusCondition` on the error path: only the conditions are persisted -/
def sugErr (s : SugO) (st : SugSt) : Prog :=
  if st.conds = s.st.conds then .done .err
  else .step (.sugStatus s.key s.rv { s.st with conds := st.conds }) (.done .err) (.done .err)

/-- `ConvertTrials` keeps a trial unless it is metrics-unavailable or early-stopped without observation -/
def sentTrials (ts : List TrialO) : List String :=
  sortS ((ts.filter (fun t => !tHas t .metricsUnavailable && !(tHas t .earlyStopped && !obsAvailable t.st))).map (·.key.name))

/-- how many assignments the (possibly faulty) algorithm service answers with -/
def replyCount (env : SugEnv) (cur : Int) : Nat :=
  if env.algoMode = 1 then (cur - 1).toNat else if env.algoMode = 2 then (cur + 1).toNat else cur.toNat

/-- the status after appending the `k` names of one reply -/
def sugAppend (v : World) (s : SugO) (st : SugSt) (k : Nat) : SugSt :=
  { st with names := st.names ++ freshNames s.key.name v.algoN k,
            count := ((st.names ++ freshNames s.key.name v.algoN k).length : Nat) }

/-- `SyncAssignments` after `GetSuggestions` answered with `k` assignments -/
def sugAfterReply (v : World) (s : SugO) (st : SugSt) (env : SugEnv) (k : Nat) (cur : Int) : Prog :=
  if (k : Int) ≠ cur then sugErr s st
  else if s.es then .step (.rpcGetRules s.key.name (env.esMode = 0)) (sugFinish s (sugAppend v s st k)) (sugErr s st)
  else sugFinish s (sugAppend v s st k)

/-- `SyncAssignments` -/
def sugSync (v : World) (s : SugO) (st : SugSt) (ts : List TrialO) (env : SugEnv) : Prog :=
  let cur := s.requests - st.count
  if cur ≤ 0 then sugFinish s st
  else if env.algoMode = 3 then
    .step (.rpcGetSuggestions s.key.name cur s.requests (sentTrials ts) 0 false) (sugErr s st) (sugErr s st)
  else
    .step (.rpcGetSuggestions s.key.name cur s.requests (sentTrials ts) (replyCount env cur) true)
      (sugAfterReply v s st env (replyCount env cur) cur) (sugErr s st)

def createIfAbsent (present : Bool) (c : Call) (next fail : Prog) : Prog :=
  if present then next else .step c next fail

/-- `ReconcileSuggestion` after the Deployment was found ready: experiment and trials, validation, sync -/
def sugTail (v : World) (s : SugO) (st1 : SugSt) (env : SugEnv) (now : Nat) : Prog :=
  match findExp v s.key with
  | none => sugErr s st1
  | some _ =>
    let ts := trialsOf v s.key
    if !Cond.has st1.conds .running then
      let running := { st1 with conds := sugMarkRunning st1.conds true rSugRunning now }
      let failed := sugFinish s { st1 with conds := sugMarkFailed st1.conds rSugFailed now }
      let afterValidate : Prog :=
        if s.es then .step .rpcValidateES (sugSync v s running ts env) failed else sugSync v s running ts env
      .step (.rpcValidate s.key.name) afterValidate failed
    else sugSync v s st1 ts env

def sugDeploy (v : World) (s : SugO) (env : SugEnv) (now : Nat) : Prog :=
  let dk := infraKey s.key
  let st0 := s.st
  match findDeploy v dk with
  | none =>
    .step (.deployCreate dk)
      (sugFinish s { st0 with conds := Cond.set st0.conds .deploymentReady false rSugDeployNotReady now }) (sugErr s st0)
  | some d =>
    if !d.ready then sugFinish s { st0 with conds := Cond.set st0.conds .deploymentReady false rSugDeployNotReady now }
    else sugTail v s { st0 with conds := Cond.set st0.conds .deploymentReady true rSugDeployReady now } env now

def sugRbac (v : World) (s : SugO) (env : SugEnv) (now : Nat) : Prog :=
  let dk := infraKey s.key
  if s.es then
    createIfAbsent (v.sas.contains dk) (.saCreate dk)
      (createIfAbsent (v.roles.contains dk) (.roleCreate dk)
        (createIfAbsent (v.rbs.contains dk) (.rbCreate dk) (sugDeploy v s env now) (sugErr s s.st)) (sugErr s s.st)) (sugErr s s.st)
  else sugDeploy v s env now

/-- `ReconcileSuggestion` -/
def sugReconcile (v : World) (s : SugO) (env : SugEnv) (now : Nat) : Prog :=
  let dk := infraKey s.key
  let svc : Prog := createIfAbsent (v.svcs.contains dk) (.svcCreate dk) (sugRbac v s env now) (sugErr s s.st)
  if s.resume = .fromVolume then createIfAbsent (v.pvcs.contains dk) (.pvcCreate dk) svc (sugErr s s.st) else svc

def sugPlan (v : World) (k : Key2) (env : SugEnv) (now : Nat) : Prog :=
  match findSug v k with
  | none => .done .ok
  | some s =>
    let dk := infraKey k
    if sHas s .succeeded then
      let delSvc : Prog := if v.svcs.contains dk then .step (.svcDelete dk) (.done .ok) (.done .err) else .done .ok
      if (findDeploy v dk).isSome then .step (.deployDelete dk) delSvc (.done .err) else delSvc
    else if !sHas s .created then
      sugFinish s { s.st with started := true, conds := Cond.set s.st.conds .created true rSugCreated now }
    else sugReconcile v s env now

end Katib.Ctl
