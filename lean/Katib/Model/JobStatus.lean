/-!
# Job status documents and the Trial's success / failure conditions (`trial/util/job_util.go`)

`GetDeployedJobStatus` evaluates `spec.failureCondition` and then `spec.successCondition` (GJSON paths) on the deployed
run object.  The model covers the two path shapes Katib writes and documents, over `status.conditions` whose entries are
objects with string members:

* `status.conditions.#(k1=="v1")#|#(k2=="v2")#` — every entry matching both comparisons (an array);
* `status.conditions.#(k=="v")` — the first entry matching (an object).

A condition "exists" when the result is an object or a non-empty array; its first entry supplies `reason` and `message`.
The verdict is decided by **which expression matched** (failure first) and by nothing inside the matched entry.
-/
namespace Katib.Job

/-- one entry of `status.conditions`: its string members -/
abbrev Entry := List (String × String)

def Entry.get (e : Entry) (k : String) : Option String := (e.find? (·.1 == k)).map (·.2)

inductive Expr where
  | all (k1 v1 k2 v2 : String)   -- `#(k1=="v1")#|#(k2=="v2")#`
  | first (k v : String)         -- `#(k=="v")`
  deriving Repr, DecidableEq

def Expr.matches (x : Expr) (e : Entry) : Bool :=
  match x with
  | .all k1 v1 k2 v2 => e.get k1 == some v1 && e.get k2 == some v2
  | .first k v => e.get k == some v

/-- the entry that stands for the condition, when the condition exists -/
def Expr.eval (x : Expr) (conds : List Entry) : Option Entry := conds.find? x.matches

inductive Verdict where
  | failed | succeeded | running
  deriving Repr, DecidableEq

structure Status where
  verdict : Verdict
  reason : String := ""
  message : String := ""
  deriving Repr, DecidableEq

/-- `GetDeployedJobStatus`: `trialRunning` = the Trial already has Running=True, `named` = the deployed object has a name -/
def jobStatus (conds : List Entry) (fe se : Expr) (trialRunning named : Bool) : Option Status :=
  match fe.eval conds with
  | some e => some { verdict := .failed, reason := (e.get "reason").getD "", message := (e.get "message").getD "" }
  | none =>
    match se.eval conds with
    | some e => some { verdict := .succeeded, reason := (e.get "reason").getD "", message := (e.get "message").getD "" }
    | none => if !trialRunning && named then some { verdict := .running } else none

end Katib.Job
