/-!
# Condition lists (pkg/apis/controller/{experiments,trials,suggestions}/v1beta1/util.go)

`getCondition` returns the first condition of a type, `hasCondition` wants status True,
`removeCondition` drops every condition of the type, `setCondition` is a no-op when status and
reason are unchanged and otherwise removes and appends.  Times are logical (`Nat`).  Core only.
-/
namespace Katib

structure Cond (τ : Type) where
  ty : τ
  st : Bool                -- ConditionTrue / ConditionFalse (Unknown is never written by katib)
  reason : String
  tt : Nat := 0            -- lastTransitionTime (logical)
  deriving Repr, DecidableEq

namespace Cond
variable {τ : Type} [DecidableEq τ]

def get : List (Cond τ) → τ → Option (Cond τ)
  | [], _ => none
  | c :: cs, t => if c.ty = t then some c else get cs t

def has (cs : List (Cond τ)) (t : τ) : Bool :=
  match get cs t with
  | some c => c.st
  | none => false

def remove : List (Cond τ) → τ → List (Cond τ)
  | [], _ => []
  | c :: cs, t => if c.ty = t then remove cs t else c :: remove cs t

def set (cs : List (Cond τ)) (t : τ) (st : Bool) (reason : String) (now : Nat) : List (Cond τ) :=
  match get cs t with
  | some c =>
    if c.st = st ∧ c.reason = reason then cs
    else remove cs t ++ [{ ty := t, st := st, reason := reason, tt := if c.st = st then c.tt else now }]
  | none => remove cs t ++ [{ ty := t, st := st, reason := reason, tt := now }]

def reasonOf (cs : List (Cond τ)) (t : τ) : Option String := (get cs t).map (·.reason)

end Cond
end Katib
