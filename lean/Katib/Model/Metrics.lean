/-!
# Model of `getMetrics` (pkg/controller.v1beta1/trial/trial_controller_util.go)

`strconv.ParseFloat` and `time.Parse(RFC3339Nano)` are oracles: every log entry carries
`key` (an integer order-isomorphic to the parsed finite float, `none` when ParseFloat fails) and
`ts` (the instant in nanoseconds, `none` when time.Parse fails).  Core only.
-/
namespace Katib.Metrics

structure Entry where
  metric : String
  text : String
  key : Option Int
  ts : Option Int
  deriving Repr, DecidableEq

structure Metric where
  name : String
  min : String
  max : String
  latest : String
  minK : Option Int := none
  maxK : Option Int := none
  lastTs : Option Int := none
  latestK : Option Int := none   -- ParseFloat key of `latest` (used by the experiment status model)
  deriving Repr, DecidableEq

def unavailable : String := "unavailable"

/-- min/max part of one loop iteration (the `err == nil` block). -/
def updMinMax (m : Metric) (e : Entry) : Metric :=
  match e.key with
  | none => m
  | some k =>
    match m.minK, m.maxK with
    | some lo, some hi =>
      if k < lo then { m with min := e.text, minK := some k }
      else if hi < k then { m with max := e.text, maxK := some k }
      else m
    | _, _ => { m with min := e.text, max := e.text, minK := some k, maxK := some k }

/-- latest part: `timestamp == nil || !timestamp.After(currentTime)`. -/
def updLatest (m : Metric) (e : Entry) (t : Int) : Metric :=
  match m.lastTs with
  | some l => if t < l then m else { m with latest := e.text, lastTs := some t, latestK := e.key }
  | none => { m with latest := e.text, lastTs := some t, latestK := e.key }

/-- One loop iteration for the metric record the entry belongs to; `none` = the error return. -/
def updMetric (m : Metric) (e : Entry) : Option Metric :=
  match e.ts with
  | none => none
  | some t => some (updLatest (updMinMax m e) e t)

/-- all-or-nothing map (the loop returns the error as soon as one update fails) -/
def optMap {α β : Type} (f : α → Option β) : List α → Option (List β)
  | [] => some []
  | a :: l =>
    match f a, optMap f l with
    | some b, some r => some (b :: r)
    | _, _ => none

/-- what one loop iteration does to one record of the map: only the record named like the entry changes -/
def stepOne (e : Entry) (m : Metric) : Option Metric :=
  if m.name = e.metric then updMetric m e else some m

/-- One loop iteration over the "map" (an association list; `initMetrics` makes the names distinct). -/
def stepEntry (ms : List Metric) (e : Entry) : Option (List Metric) :=
  optMap (stepOne e) ms

def run : List Metric → List Entry → Option (List Metric)
  | ms, [] => some ms
  | ms, e :: es =>
    match stepEntry ms e with
    | some ms' => run ms' es
    | none => none

def initMetric (n : String) : Metric :=
  { name := n, min := unavailable, max := unavailable, latest := unavailable }

def initMetrics (strategies : List String) : List Metric :=
  strategies.eraseDups.map initMetric

def getMetrics (es : List Entry) (strategies : List String) : Option (List Metric) :=
  run (initMetrics strategies) es

/-- The per-metric specification: fold of the single-record update over that metric's own entries. -/
def runOne : Metric → List Entry → Option Metric
  | m, [] => some m
  | m, e :: es =>
    match updMetric m e with
    | some m' => runOne m' es
    | none => none

end Katib.Metrics
