/-!
# Model of the observation-log storage (pkg/db/v1beta1/{mysql,postgres})

`RegisterObservationLog`, `GetObservationLog`, `DeleteObservationLog` as functions from a request to either an
error (before any statement is issued) or the statement text and its bound arguments.  `time.Parse` /
`Format` are oracles: every timestamp carries its parse result already formatted for the dialect.  Core only.
-/
namespace Katib.DB

inductive Dialect | mysql | postgres
  deriving Repr, DecidableEq

/-- result of `time.Parse(RFC3339Nano, s)` followed by `.UTC().Format(<dialect format>)` -/
inductive Ts | empty | bad | ok (formatted : String)
  deriving Repr, DecidableEq

structure LogEntry where
  ts : Ts
  metric : Option (String × String)     -- name, value; `none` = the `metric` sub-message is missing
  deriving Repr, DecidableEq

inductive Err | missingLog | missingMetric | badTime
  deriving Repr, DecidableEq

structure Stmt where
  sql : String
  args : List String
  deriving Repr, DecidableEq

def insertPrefix : String := "INSERT INTO observation_logs (trial_name, time, metric_name, value) VALUES "

def dropLast (s : String) : String := String.ofList (s.toList.dropLast)

/-- the i-th value group (0-based) -/
def group (d : Dialect) (i : Nat) : String :=
  match d with
  | .mysql => "(?, ?, ?, ?),"
  | .postgres => "($" ++ toString (4 * i + 1) ++ ", $" ++ toString (4 * i + 2) ++ ", $" ++ toString (4 * i + 3) ++ ", $" ++ toString (4 * i + 4) ++ "),"

def groups (d : Dialect) : Nat → Nat → String
  | _, 0 => ""
  | i, n + 1 => group d i ++ groups d (i + 1) n

/-- the INSERT statement for `n` rows: assembled from constants and the counter only -/
def insertSql (d : Dialect) (n : Nat) : String := dropLast (insertPrefix ++ groups d 0 n)

/-- the loop of `RegisterObservationLog`: bound values of the timestamped entries, or the first error -/
def collect (trial : String) : List LogEntry → Except Err (List String)
  | [] => .ok []
  | e :: es =>
    match e.ts with
    | .empty => collect trial es
    | .bad =>
      match e.metric with
      | none => .error .missingMetric      -- the nil-metric check precedes the parse
      | some _ => .error .badTime
    | .ok f =>
      match e.metric with
      | none => .error .missingMetric
      | some (n, v) =>
        match collect trial es with
        | .ok r => .ok (trial :: f :: n :: v :: r)
        | .error x => .error x

def register (d : Dialect) (trial : String) (log : Option (List LogEntry)) : Except Err Stmt :=
  match log with
  | none => .error .missingLog
  | some es =>
    match collect trial es with
    | .error x => .error x
    | .ok args => .ok { sql := insertSql d (args.length / 4), args := args }

inductive Filter | absent | bad | ok (formatted : String)
  deriving Repr, DecidableEq

def ph (d : Dialect) (i : Nat) : String := match d with | .mysql => "?" | .postgres => "$" ++ toString i

def selectPrefix : String := "SELECT time, metric_name, value FROM observation_logs WHERE trial_name = "

/-- the SELECT statement: depends only on which filters are present -/
def selectSql (d : Dialect) (hasMetric hasStart hasEnd : Bool) : String :=
  let i1 := 2
  let s1 := if hasMetric then " AND metric_name = " ++ ph d i1 else ""
  let i2 := if hasMetric then i1 + 1 else i1
  let s2 := if hasStart then " AND time >= " ++ ph d i2 else ""
  let i3 := if hasStart then i2 + 1 else i2
  let s3 := if hasEnd then " AND time <= " ++ ph d i3 else ""
  selectPrefix ++ ph d 1 ++ s1 ++ s2 ++ s3 ++ " ORDER BY time"

def get (d : Dialect) (trial metric : String) (start end_ : Filter) : Except Err Stmt :=
  match start, end_ with
  | .bad, _ => .error .badTime
  | _, .bad => .error .badTime
  | _, _ =>
    let a1 := if metric = "" then [] else [metric]
    let a2 := match start with | .ok f => [f] | _ => []
    let a3 := match end_ with | .ok f => [f] | _ => []
    .ok { sql := selectSql d (metric ≠ "") (start ≠ .absent) (end_ ≠ .absent), args := trial :: (a1 ++ a2 ++ a3) }

def delete (d : Dialect) (trial : String) : Stmt :=
  { sql := "DELETE FROM observation_logs WHERE trial_name = " ++ ph d 1, args := [trial] }

/-- rows read back by `GetObservationLog`: a row whose time does not parse is skipped -/
structure Row where
  time : Option String      -- `some t`: parsed and re-formatted as RFC3339Nano UTC; `none`: unparsable (or scan error)
  name : String
  value : String
  deriving Repr, DecidableEq

def readRows (rows : List Row) : List (String × String × String) :=
  rows.filterMap (fun r => r.time.map (fun t => (t, r.name, r.value)))

end Katib.DB
