import Katib.Model.Reconcile
/-!
# The simulator state machine: ops, views, history (DESIGN.md §4.2)

`step : Sim → Op → Sim × String` is the function the correspondence drives and the theorems quantify over.
Typed kinds are read from a snapshot `hist[v]` (the store as it was after an earlier op; never the
reconcile's own writes), run objects / DB / algorithm counter from the live store.  Core only.
-/
namespace Katib.Ctl
open Katib Katib.Exp

structure ExpInit where
  key : Key2
  par : Int
  maxT : Option Int
  maxF : Option Int
  cfg : ExpCfg
  deriving Repr

inductive Op
  | recExp (k : Key2) (vE vT vS : Nat) (f : Faults)
  | recSug (k : Key2) (vS vE vT vD : Nat) (f : Faults) (env : SugEnv)
  | recTrial (k : Key2) (vT : Nat) (f : Faults)
  | job (k : Key2) (succeeded : Bool)
  | metric (trial : String) (text : String) (key : Option Int) (name : String)
  | earlyStop (k : Key2)
  | deployReady (k : Key2)
  | editMax (k : Key2) (n : Int)
  /-- the run object of a *completed* Trial is removed by someone else (TTL after finish, user clean-up) -/
  | jobGone (k : Key2)
  /-- the user (or the garbage collector of a deleted Experiment) deletes a Trial: with a finalizer it is only marked -/
  | userDelete (k : Key2)
  | noop
  deriving Repr

structure Sim where
  cur : World := {}
  hist : Array World := #[]      -- hist[i] = store when op i started (hist[0] = initial store)
  opIndex : Nat := 0
  deriving Repr

def Sim.init (es : List ExpInit) : Sim :=
  let w : World := { exps := es.map (fun e => { key := e.key, par := e.par, maxT := e.maxT, maxF := e.maxF, cfg := e.cfg }) }
  { cur := w, hist := #[w], opIndex := 1 }

def snapAt (s : Sim) (i : Nat) : World := (s.hist[i]?).getD s.cur

/-- assemble what a reconcile reads: typed kinds per-kind from snapshots, the rest live -/
def assemble (s : Sim) (vE vT vS vD : Nat) : World :=
  let d := snapAt s vD
  { s.cur with exps := (snapAt s vE).exps, trials := (snapAt s vT).trials, sugs := (snapAt s vS).sugs,
               deploys := d.deploys, svcs := d.svcs, pvcs := d.pvcs, sas := d.sas, roles := d.roles, rbs := d.rbs }

def jobAfter (st : JobState) (succeeded : Bool) : JobState :=
  match st, succeeded with
  | .running, true => .succeeded
  | .running, false => .failed
  | .succeeded, true => .succeeded
  | .succeeded, false => .both
  | .failed, false => .failed
  | .failed, true => .both
  | .both, _ => .both

/-- one op on the live world: new world and the outcome text (`res=.. w=..` or `ok=..`) -/
def stepWorld (s : Sim) (op : Op) : World × String :=
  let now := s.opIndex
  let last := s.hist.size - 1
  let run (_v : World) (p : Prog) (f : Faults) : World × String :=
    let o := exec f p s.cur 0 []
    (o.w, "res=" ++ o.res.str ++ " w=" ++ ",".intercalate o.log)
  match op with
  | .recExp k vE vT vS f =>
    let v := assemble s vE vT vS last
    run v (expPlan v k now) f
  | .recSug k vS vE vT vD f env =>
    let v := assemble s vE vT vS vD
    run v (sugPlan v k env now) f
  | .recTrial k vT f =>
    let v := assemble s last vT last last
    run v (trialPlan v k now) f
  | .job k ok =>
    match findJob s.cur k with
    | none => (s.cur, "ok=0")
    | some _ => ({ s.cur with jobs := s.cur.jobs.map (fun j => if j.key = k then { j with state := jobAfter j.state ok } else j) }, "ok=1")
  | .metric t text key nm =>
    let e : Metrics.Entry := { metric := nm, text := text, key := key, ts := some (now : Int) }
    let w := s.cur
    let w' := if w.db.any (fun p => p.1 = t) then { w with db := w.db.map (fun p => if p.1 = t then (p.1, p.2 ++ [e]) else p) }
              else { w with db := w.db ++ [(t, [e])] }
    (w', "ok=1")
  | .earlyStop k =>
    match findTrial s.cur k with
    | none => (s.cur, "ok=0")
    | some t =>
      if tCompleted t || !tHas t .running then (s.cur, "ok=0")
      else
        let c : TCond := { ty := .earlyStopped, st := true, reason := rTrialES, tt := now }
        let f (t : TrialO) : TrialO := { t with rv := t.rv + 1, st := { t.st with conds := t.st.conds ++ [c] } }
        (updTrial s.cur k f, "ok=1")
  | .deployReady k =>
    let dk := infraKey k
    match findDeploy s.cur dk with
    | none => (s.cur, "ok=0")
    | some _ => ({ s.cur with deploys := s.cur.deploys.map (fun d => if d.key = dk then { d with ready := true } else d) }, "ok=1")
  | .editMax k n =>
    match findExp s.cur k with
    | none => (s.cur, "ok=0")
    | some _ => (updExp s.cur k (fun e => { e with maxT := some n, rv := e.rv + 1 }), "ok=1")
  | .jobGone k =>
    match findTrial s.cur k with
    | none => (s.cur, "ok=0")
    | some t =>
      if tCompleted t && (findJob s.cur k).isSome then ({ s.cur with jobs := s.cur.jobs.filter (fun j => ¬ j.key = k) }, "ok=1")
      else (s.cur, "ok=0")
  | .userDelete k =>
    match findTrial s.cur k with
    | none => (s.cur, "ok=0")
    | some t =>
      if t.deleted then (s.cur, "ok=0")
      else if t.fin then (updTrial s.cur k (fun t => { t with deleted := true, rv := t.rv + 1 }), "ok=1")
      else ({ s.cur with trials := s.cur.trials.filter (fun t => ¬ t.key = k) }, "ok=1")
  | .noop => (s.cur, "ok=1")

def step (s : Sim) (op : Op) : Sim × String :=
  let (w, out) := stepWorld s op
  ({ cur := w, hist := s.hist.push w, opIndex := s.opIndex + 1 }, out)

end Katib.Ctl
