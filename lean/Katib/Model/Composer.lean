/-!
# Model of the suggestion composer (pkg/controller.v1beta1/suggestion/composer/composer.go, util/suggestion.go, util/labels.go)

The generated Deployment, Service, volume claim and RBAC objects, projected on the fields that tie them together.
Labels are association lists (Go maps; compared as sets).  Core only.
-/
namespace Katib.Comp

inductive Resume | never | longRunning | fromVolume
  deriving Repr, DecidableEq

structure Sug where
  name : String
  ns : String
  labels : List (String × String)
  algo : String
  resume : Resume
  es : Option String            -- early-stopping algorithm name ("" counts as absent)
  deriving Repr, DecidableEq

/-- the katib-config suggestion entry (the parts the composer reads) -/
structure Cfg where
  containerName : String
  ports : List (String × Int)
  serviceAccountName : String
  volumeMountPath : String
  mounts : List String          -- names of volume mounts already present in the configured container
  deriving Repr, DecidableEq

def suggestionPort : Int := 6789
def earlyStoppingPort : Int := 6788
def suggestionPortName := "suggestion-api"
def earlyStoppingPortName := "earlystop-api"
def volumeName := "suggestion-volume"

structure Container where
  name : String
  ports : List (String × Int)
  mounts : List String
  deriving Repr, DecidableEq

structure Deployment where
  name : String
  ns : String
  selector : List (String × String)
  podLabels : List (String × String)
  containers : List Container
  serviceAccount : String
  volumes : List (String × String)       -- volume name, claim name
  deriving Repr, DecidableEq

structure Service where
  name : String
  ns : String
  selector : List (String × String)
  ports : List (String × Int)
  deriving Repr, DecidableEq

def hasES (s : Sug) : Bool := match s.es with | some a => a != "" | none => false

def resName (s : Sug) : String := s.name ++ "-" ++ s.algo

/-- Go map insert: overwrite an existing key, else append -/
def setLabel (l : List (String × String)) (k v : String) : List (String × String) :=
  if l.any (fun p => p.1 = k) then l.map (fun p => if p.1 = k then (k, v) else p) else l ++ [(k, v)]

/-- `util.SuggestionLabels` -/
def suggestionLabels (s : Sug) : List (String × String) :=
  setLabel (setLabel (setLabel s.labels "katib.kubeflow.org/deployment" (resName s)) "katib.kubeflow.org/experiment" s.name)
    "katib.kubeflow.org/suggestion" s.name

def mainContainer (s : Sug) (c : Cfg) : Container :=
  { name := if c.containerName = "" then "suggestion" else c.containerName,
    ports := c.ports ++ [(suggestionPortName, suggestionPort)],
    mounts := if s.resume = .fromVolume ∧ ¬ c.mounts.contains volumeName then c.mounts ++ [volumeName] else c.mounts }

def esContainer : Container := { name := "early-stopping", ports := [(earlyStoppingPortName, earlyStoppingPort)], mounts := [] }

/-- `desiredContainers` -/
def containers (s : Sug) (c : Cfg) : List Container :=
  mainContainer s c :: (if hasES s then [esContainer] else [])

def reservedPort (c : Cfg) : Bool := c.ports.any (fun p => p.1 = suggestionPortName ∨ p.2 = suggestionPort)

/-- `DesiredDeployment`: `none` = the config declares the reserved port name or number -/
def desiredDeployment (s : Sug) (c : Cfg) : Option Deployment :=
  if reservedPort c then none
  else some
    { name := resName s, ns := s.ns, selector := suggestionLabels s, podLabels := suggestionLabels s,
      containers := containers s c,
      serviceAccount := if hasES s ∧ c.serviceAccountName = "" then resName s else c.serviceAccountName,
      volumes := if s.resume = .fromVolume then [(volumeName, resName s)] else [] }

/-- `DesiredService` -/
def desiredService (s : Sug) : Service :=
  { name := resName s, ns := s.ns, selector := suggestionLabels s,
    ports := (suggestionPortName, suggestionPort) :: (if hasES s then [(earlyStoppingPortName, earlyStoppingPort)] else []) }

/-- `util.GetAlgorithmEndpoint` / `GetEarlyStoppingEndpoint`: host and port the controllers dial -/
def algorithmEndpoint (s : Sug) : String × Int := (resName s ++ "." ++ s.ns, suggestionPort)
def earlyStoppingEndpoint (s : Sug) : String × Int := (resName s ++ "." ++ s.ns, earlyStoppingPort)

/-- names of PVC and of ServiceAccount = Role = RoleBinding (subject and roleRef use the same name) -/
def pvcName (s : Sug) : String := resName s
def rbacName (s : Sug) : String := resName s

/-- the suggestion controller reconciles RBAC iff early stopping is used and the pod's service account is the generated one -/
def reconcilesRbac (s : Sug) (c : Cfg) : Bool :=
  hasES s && (match desiredDeployment s c with | some d => d.serviceAccount == rbacName s | none => false)

end Katib.Comp
