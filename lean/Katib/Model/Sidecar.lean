/-!
# Model of the pod mutating webhook (pkg/webhook/v1beta1/pod/inject_webhook.go, utils.go)

`SidecarInjector.MutationRequired` (owner walk) and `Mutate`.  `filepath.Dir/Join`, katib-config lookup and the image
registry are oracles (`dir` arrives on the op line; pods without an explicit command are out of scope).  Core only.
-/
namespace Katib.Pod

structure Container where
  name : String
  image : String
  command : List String
  args : List String
  env : List String                    -- names of env variables
  mounts : List (String × String)      -- volume name, mount path
  deriving Repr, DecidableEq

structure PodS where
  labels : List (String × String)
  containers : List Container
  volumes : List String
  sharePNS : Option Bool
  deriving Repr, DecidableEq

inductive Kind | stdOut | file | tfEvent | prometheus | custom | push | none_
  deriving Repr, DecidableEq

structure Trial where
  name : String
  labels : List (String × String)
  primaryPodLabels : Option (List (String × String))
  primaryContainer : String
  kind : Kind
  /-- `getMountPath`: path and whether it denotes a file (the volume is mounted at its directory) -/
  mountPath : String
  mountIsFile : Bool
  /-- `filepath.Dir(mountPath)` when `mountIsFile`, else `mountPath` (oracle) -/
  mountDir : String
  filters : List String
  fileFormat : Option String           -- `-format` for File collectors with a source
  metricNames : String                 -- objective;additional;…
  objType : String
  rules : Option (List String)         -- early-stopping rules as flag values; `none` = nil slice
  customCollector : Option Container
  deriving Repr, DecidableEq

structure Env where
  dbAddr : String
  collectorImage : Option String       -- katib-config image for the kind; `none` = no config entry (error)
  waitAll : Option Bool
  experimentExists : Bool
  suggestion : Option (String × String)  -- (early-stopping endpoint, suggestion_trial_dir value) when the Suggestion exists
  pvcName : String
  checkpointSubPath : String           -- filepath.Join(experiment, trial) (oracle)
  deriving Repr, DecidableEq

inductive Err | noPrimaryContainer | noCollectorConfig | noSuggestion | noExperiment
  deriving Repr, DecidableEq

def trialNameLabel := "katib.kubeflow.org/trial"
def envTrialName := "KATIB_TRIAL_NAME"
def metricsVolume := "metrics-volume"
def suggestionVolume := "suggestion-volume"

def setLabel (l : List (String × String)) (k v : String) : List (String × String) :=
  if l.any (fun p => p.1 = k) then l.map (fun p => if p.1 = k then (k, v) else p) else l ++ [(k, v)]

/-- `mutatePodMetadata` -/
def mutateLabels (pod : List (String × String)) (t : Trial) : List (String × String) :=
  setLabel (t.labels.foldl (fun acc p => setLabel acc p.1 p.2) pod) trialNameLabel t.name

/-- `isPrimaryPod` -/
def isPrimaryPod (podLabels primary : List (String × String)) : Bool :=
  primary.all (fun p => podLabels.any (fun q => q.1 = p.1 ∧ q.2 = p.2) && !(podLabels.any (fun q => q.1 = p.1 ∧ q.2 ≠ p.2)))

def sidecarName : Kind → String
  | .stdOut => "metrics-logger-and-collector"
  | .file => "metrics-logger-and-collector"
  | _ => "metrics-collector"

def needWrap : Kind → Bool
  | .stdOut => true | .tfEvent => true | .file => true | _ => false

/-- update the first container named `n` -/
def updFirst (n : String) (f : Container → Container) : List Container → List Container
  | [] => []
  | c :: r => if c.name = n then f c :: r else c :: updFirst n f r

def hasContainer (cs : List Container) (n : String) : Bool := cs.any (fun c => c.name = n)

/-- `getMetricsCollectorArgs` -/
def collectorArgs (t : Trial) (e : Env) : Except Err (List String) :=
  let base := ["-t", t.name, "-m", t.metricNames, "-o-type", t.objType, "-s-db", e.dbAddr]
  let a1 := if t.mountPath ≠ "" then ["-path", t.mountPath] else []
  let a2 := if t.filters.isEmpty then [] else ["-f", ";".intercalate t.filters]
  let a3 := match t.kind, t.fileFormat with | .file, some f => ["-format", f] | _, _ => []
  let a4 := if t.kind = .stdOut then ["-format", "TEXT"] else []
  let a5 := match e.waitAll with | some b => ["-w", if b then "true" else "false"] | none => []
  let rules := t.rules.getD []
  if rules.isEmpty then .ok (base ++ a1 ++ a2 ++ a3 ++ a4 ++ a5)
  else match e.suggestion with
    | none => .error .noSuggestion
    | some (endpoint, _) => .ok (base ++ a1 ++ a2 ++ a3 ++ a4 ++ a5 ++ rules.flatMap (fun r => ["-stop-rule", r]) ++ ["-s-earlystop", endpoint])

/-- `getMetricsCollectorContainer` -/
def collectorContainer (t : Trial) (e : Env) : Except Err Container :=
  match t.kind, t.customCollector with
  | .custom, some c => .ok c
  | _, _ =>
    match e.collectorImage with
    | none => .error .noCollectorConfig
    | some img =>
      match collectorArgs t e with
      | .error x => .error x
      | .ok args => .ok { name := sidecarName t.kind, image := img, command := [], args := args, env := [], mounts := [] }

def esCommand (dir : String) : String :=
  "if test -f " ++ dir ++ "/$$$$.pid && [ $(head -n 1 " ++ dir ++ "/$$.pid) = early-stopped ]; then echo Training Container was Early Stopped; else echo Training Container was Failed; exit 1; fi"

def completedCommand (dir : String) : String := "echo completed > " ++ dir ++ "/$$$$.pid"

/-- a leading `sh -c` / `bash -c` is reused as the wrapper's shell; otherwise `sh -c` wraps the whole command -/
def splitShell (all : List String) : List String × List String :=
  match all with
  | a0 :: a1 :: rest => if (a0 = "sh" ∨ a0 = "bash") ∧ a1 = "-c" then ([a0, a1], rest) else (["sh", "-c"], all)
  | _ => (["sh", "-c"], all)

/-- what is appended to the training command: redirect (StdOut), early-stopping branch, completion marker -/
def wrapExtras (t : Trial) : List String :=
  (if t.kind = .stdOut then ["1>" ++ t.mountPath ++ " 2>&1"] else []) ++
  (if t.rules.isSome then ["||", esCommand t.mountDir] else []) ++ ["&&", completedCommand t.mountDir]

/-- `wrapWorkerContainer` on the primary container (explicit command only) -/
def wrap (t : Trial) (c : Container) : Container :=
  { c with command := (splitShell (c.command ++ c.args)).1,
           args := [" ".intercalate ((splitShell (c.command ++ c.args)).2 ++ wrapExtras t)] }

/-- the pod is not the Trial's primary pod (only when `primaryPodLabels` is set) -/
def nonPrimary (pod : PodS) (t : Trial) : Bool :=
  match t.primaryPodLabels with
  | some pl => !isPrimaryPod pod.labels pl
  | none => false

/-- labels, and KATIB_TRIAL_NAME on the first container named like the primary container -/
def lightPod (pod : PodS) (t : Trial) : PodS :=
  { pod with labels := mutateLabels pod.labels t,
             containers := updFirst t.primaryContainer (fun c => { c with env := c.env ++ [envTrialName] }) pod.containers }

/-- the edits of a full mutation once the collector container and the suggestion's checkpoint directory are known -/
def assemble (pod : PodS) (t : Trial) (col : Container) (checkpoint : String) : PodS :=
  let cs2 := (lightPod pod t).containers ++ [col]
  let cs3 := if checkpoint = "" then cs2
    else updFirst t.primaryContainer (fun c => { c with mounts := c.mounts ++ [(suggestionVolume, checkpoint)] }) cs2
  let vols3 := if checkpoint = "" then pod.volumes else pod.volumes ++ [suggestionVolume]
  -- metrics volume on every container named like the sidecar or the primary container
  let cs4 := if t.mountPath = "" then cs3
    else cs3.map (fun c => if c.name = col.name ∨ c.name = t.primaryContainer then { c with mounts := c.mounts ++ [(metricsVolume, t.mountDir)] } else c)
  let vols4 := if t.mountPath = "" then vols3 else vols3 ++ [metricsVolume]
  let cs5 := if needWrap t.kind then updFirst t.primaryContainer (wrap t) cs4 else cs4
  { labels := mutateLabels pod.labels t, containers := cs5, volumes := vols4, sharePNS := some true }

/-- `Mutate` -/
def mutate (pod : PodS) (t : Trial) (e : Env) : Except Err PodS :=
  if nonPrimary pod t then .ok (lightPod pod t)
  else if t.kind = .push then .ok (lightPod pod t)
  else if !hasContainer pod.containers t.primaryContainer then .error .noPrimaryContainer
  else
    match collectorContainer t e with
    | .error x => .error x
    | .ok col =>
      -- mutateSuggestionVolume needs the Experiment and the Suggestion
      if !e.experimentExists then .error .noExperiment
      else match e.suggestion with
      | none => .error .noSuggestion
      | some (_, checkpoint) => .ok (assemble pod t col checkpoint)

/-! ### owner walk -/

structure Obj where
  kind : String
  name : String
  owners : List (String × String × String)   -- kind, apiVersion, name
  deriving Repr, DecidableEq

def trialKind := "Trial"
def trialAPIVersion := "kubeflow.org/v1beta1"

/-- `getKatibJob` with fuel (the real recursion follows owner references in the cluster) -/
def katibJob (store : List Obj) : Nat → Obj → Option String
  | 0, _ => none
  | fuel + 1, o =>
    if o.owners.any (fun w => w.1 = trialKind ∧ w.2.1 = trialAPIVersion) then some o.name
    else
      let rec tryOwners : List (String × String × String) → Option String
        | [] => none
        | w :: r =>
          match store.find? (fun x => x.kind = w.1 ∧ x.name = w.2.2) with
          | none => none                               -- a missing owner aborts the search
          | some parent =>
            match katibJob store fuel parent with
            | some j => some j
            | none => tryOwners r
      tryOwners o.owners

end Katib.Pod
