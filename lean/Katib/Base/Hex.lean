/-! Token helpers for the line protocol: hex-encoded strings, sorted output. Core only. -/
namespace Katib

def hexDigitVal (c : Char) : UInt8 :=
  if c.isDigit then (c.toNat - 48).toUInt8 else (c.toNat - 87).toUInt8

def unhexBytes : List Char → List UInt8
  | a :: b :: r => (hexDigitVal a * 16 + hexDigitVal b) :: unhexBytes r
  | _ => []

/-- `-` is the empty string; otherwise lowercase hex of the UTF-8 bytes. Invalid UTF-8 is kept
    byte-wise distinct by mapping to a lossy but injective-enough rendering (only equality matters). -/
def unhex (s : String) : String :=
  if s == "-" then "" else
  let bs : ByteArray := ⟨(unhexBytes s.toList).toArray⟩
  match String.fromUTF8? bs with
  | some r => r
  | none => "�" ++ s

def hexDigit (n : UInt8) : Char :=
  if n < 10 then Char.ofNat (48 + n.toNat) else Char.ofNat (87 + n.toNat)

def hexOf (s : String) : String :=
  if s == "" then "-" else
  if s.startsWith "�" then (s.drop 1).toString else
  String.ofList (s.toUTF8.toList.flatMap (fun b => [hexDigit (b / 16), hexDigit (b % 16)]))

def insertSorted (x : String) : List String → List String
  | [] => [x]
  | y :: ys => if x ≤ y then x :: y :: ys else y :: insertSorted x ys

def sortStrings (l : List String) : List String := l.foldr insertSorted []

def tokens (line : String) : List String :=
  (line.trimAscii.toString.splitOn " ").filter (· ≠ "")

def optInt (s : String) : Option Int := if s == "none" then none else s.toInt?

end Katib
