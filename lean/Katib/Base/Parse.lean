import Katib.Base.Hex
/-! A tiny token-stream parser for op lines. Core only. -/
namespace Katib

abbrev P (α : Type) := StateT (List String) Option α

namespace P
def tok : P String := fun s => match s with | t :: r => some (t, r) | [] => none
def nat : P Nat := do let t ← tok; match t.toNat? with | some n => pure n | none => failure
def int : P Int := do let t ← tok; match t.toInt? with | some n => pure n | none => failure
def str : P String := do let t ← tok; pure (unhex t)
def oint : P (Option Int) := do
  let t ← tok
  if t == "none" || t == "x" then pure none else match t.toInt? with | some n => pure (some n) | none => failure
def onat : P (Option Nat) := do
  let t ← tok
  if t == "none" then pure none else match t.toNat? with | some n => pure (some n) | none => failure
def bool : P Bool := do let t ← tok; if t == "1" then pure true else if t == "0" then pure false else failure
def lit (s : String) : P Unit := do let t ← tok; if t == s then pure () else failure
def rep {α : Type} (p : P α) : Nat → P (List α)
  | 0 => pure []
  | n + 1 => do let a ← p; let r ← rep p n; pure (a :: r)
/-- length-prefixed list -/
def list {α : Type} (p : P α) : P (List α) := do let n ← nat; rep p n
def run {α : Type} (p : P α) (toks : List String) : Option α :=
  match p toks with
  | some (a, []) => some a
  | _ => none
def runPrefix {α : Type} (p : P α) (toks : List String) : Option (α × List String) := p toks
end P

def hexList (l : List String) : String := ",".intercalate (l.map hexOf)
def b01 (b : Bool) : String := if b then "1" else "0"

end Katib
