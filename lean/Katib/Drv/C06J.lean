import Katib.Base.Parse
import Katib.Model.JobStatus
/-!
# C06J: job status documents x success / failure conditions through `GetDeployedJobStatus`
-/
namespace Katib.Drv
open Katib Katib.Job

def pExpr : P Expr := do
  let t ← P.tok
  match t with
  | "all" => do let k1 ← P.str; let v1 ← P.str; let k2 ← P.str; let v2 ← P.str; pure (.all k1 v1 k2 v2)
  | "first" => do let k ← P.str; let v ← P.str; pure (.first k v)
  | _ => failure

def pEntry6 : P Entry := P.list (do let k ← P.str; let v ← P.str; pure (k, v))

structure C06JOp where
  running : Bool
  named : Bool
  fe : Expr
  se : Expr
  conds : List Entry

def pC06J : P C06JOp := do
  let r ← P.tok; let n ← P.tok
  let fe ← pExpr; let se ← pExpr
  let conds ← P.list pEntry6
  pure { running := r == "1", named := n == "1", fe, se, conds }

def showStatus : Option Status → String
  | none => "none"
  | some s => match s.verdict with
    | .running => "running"
    | .failed => s!"failed {hexOf s.reason} {hexOf s.message}"
    | .succeeded => s!"succeeded {hexOf s.reason} {hexOf s.message}"

def handleC06J (toks : List String) : String :=
  match P.run pC06J toks with
  | some o => showStatus (jobStatus o.conds o.fe o.se o.running o.named)
  | none => "bad-op"

/-- the property on the observed answer alone: failure first, Succeeded only from the success condition -/
def oracleLineC06J (toks out : List String) : String :=
  if out == ["panic"] then "fail job-status-evaluation-crashed" else
  match P.run pC06J toks with
  | none => "bad-op"
  | some o =>
    let f := o.conds.any o.fe.matches
    let s := o.conds.any o.se.matches
    match out.head? with
    | some "failed" => if f then "pass" else "fail failed-without-a-matching-failure-condition"
    | some "succeeded" =>
      if f then "fail job-satisfying-the-failure-condition-reported-succeeded"
      else if s then "pass" else "fail succeeded-without-a-matching-success-condition"
    | some "running" | some "none" =>
      if f then "fail job-satisfying-the-failure-condition-not-reported-failed"
      else if s then "fail job-satisfying-the-success-condition-not-reported-succeeded" else "pass"
    | some "err" => if f || s then "fail job-status-not-evaluated-although-a-condition-is-satisfied" else "pass"
    | _ => "bad-out"

end Katib.Drv
