import Katib.Base.Parse
import Katib.Model.Sidecar
namespace Katib.Drv
open Katib Katib.Pod

def pPairS : P (String × String) := do let a ← P.str; let b ← P.str; pure (a, b)

def pContainer : P Container := do
  let name ← P.str; let image ← P.str
  let command ← P.list P.str; let args ← P.list P.str; let env ← P.list P.str
  let mounts ← P.list pPairS
  pure { name, image, command, args, env, mounts }

def pKind : P Kind := do
  let t ← P.tok
  pure (match t with
    | "StdOut" => .stdOut | "File" => .file | "TensorFlowEvent" => .tfEvent | "PrometheusMetric" => .prometheus
    | "Custom" => .custom | "Push" => .push | _ => .none_)

def pOptBool : P (Option Bool) := do
  let t ← P.tok
  pure (if t == "none" then none else some (t == "1"))

def pPodS : P PodS := do
  let labels ← P.list pPairS
  let containers ← P.list pContainer
  let volumes ← P.list P.str
  let sharePNS ← pOptBool
  pure { labels, containers, volumes, sharePNS }

def pTrial : P Trial := do
  let name ← P.str
  let labels ← P.list pPairS
  let hasPL ← P.bool
  let pl ← P.list pPairS
  let primaryContainer ← P.str
  let kind ← pKind
  let mountPath ← P.str; let mountIsFile ← P.bool; let mountDir ← P.str
  let filters ← P.list P.str
  let ff ← P.tok
  let metricNames ← P.str; let objType ← P.str
  let hasRules ← P.bool
  let rules ← P.list P.str
  let hasCustom ← P.bool
  let custom ← if hasCustom then (do let c ← pContainer; pure (some c)) else pure none
  pure { name, labels, primaryPodLabels := if hasPL then some pl else none, primaryContainer, kind, mountPath, mountIsFile, mountDir,
         filters, fileFormat := if ff == "none" then none else some (unhex ff), metricNames, objType,
         rules := if hasRules then some rules else none, customCollector := custom }

def pEnv : P Env := do
  let dbAddr ← P.str
  let img ← P.tok
  let waitAll ← pOptBool
  let experimentExists ← P.bool
  let hasSug ← P.bool
  let ep ← P.str; let cp ← P.str
  let pvcName ← P.str; let sub ← P.str
  pure { dbAddr, collectorImage := if img == "none" then none else some (unhex img), waitAll, experimentExists,
         suggestion := if hasSug then some (ep, cp) else none, pvcName, checkpointSubPath := sub }

def showList (l : List String) : String := if l.isEmpty then "-" else ",".intercalate (l.map hexOf)
def showPairsS (l : List (String × String)) : String := if l.isEmpty then "-" else ",".intercalate (l.map (fun p => hexOf p.1 ++ ":" ++ hexOf p.2))
def showLabelSet (l : List (String × String)) : String :=
  let items := sortStrings (l.map (fun p => hexOf p.1 ++ ":" ++ hexOf p.2))
  if items.isEmpty then "-" else ",".intercalate items

def showContainer (c : Container) : String :=
  "/".intercalate [hexOf c.name, hexOf c.image, showList c.command, showList c.args, showList c.env, showPairsS c.mounts]

def showPod (p : PodS) : String :=
  s!"labels={showLabelSet p.labels} cts={";".intercalate (p.containers.map showContainer)} vols={showList p.volumes} pns={match p.sharePNS with | some b => b01 b | none => "none"}"

/-- `C12 required <trial names> <nstore> {kind name nowners {kind apiVersion name}}* <pod obj>` / `C12 mutate <pod> <trial> <env>` -/
def pObj : P Obj := do
  let kind ← P.str; let name ← P.str
  let owners ← P.list (do let k ← P.str; let a ← P.str; let n ← P.str; pure (k, a, n))
  pure { kind, name, owners }

def handleC12 (toks : List String) : String :=
  match toks with
  | "required" :: r =>
    match P.run (do let trials ← P.list P.str; let store ← P.list pObj; let o ← pObj; pure (trials, store, o)) r with
    | some (trials, store, o) =>
      (match katibJob store 8 o with
       | some j => if trials.contains j then "required" else "error"
       | none => "none")
    | none => "bad-op"
  | "mutate" :: r =>
    match P.run (do let p ← pPodS; let t ← pTrial; let e ← pEnv; pure (p, t, e)) r with
    | some (p, t, e) =>
      (match mutate p t e with
       | .ok q => "ok " ++ showPod q
       | .error .noPrimaryContainer => "err noPrimaryContainer"
       | .error .noCollectorConfig => "err noCollectorConfig"
       | .error .noSuggestion => "err noSuggestion"
       | .error .noExperiment => "err noExperiment")
    | none => "bad-op"
  | _ => "bad-op"

/-- the property on the observed pod -/
def oracleLineC12 (toks out : List String) : String :=
  if out.head? == some "panic" then "fail webhook-crashed" else
  match toks with
  | "mutate" :: r =>
    match P.run (do let p ← pPodS; let t ← pTrial; let e ← pEnv; pure (p, t, e)) r with
    | some (p, t, _e) =>
      let get (k : String) : String := ((out.find? (·.startsWith (k ++ "="))).map (fun x => (x.drop (k.length + 1)).toString)).getD ""
      let light := nonPrimary p t || t.kind == .push
      if out.head? == some "err" then
        (if light then "fail light-pod-rejected"
         else if !hasContainer p.containers t.primaryContainer then "pass"
         else if " ".intercalate out == (handleC12 toks) then "pass" else "fail primary-pod-rejected")
      else
        let cts := (get "cts").splitOn ";"
        let names := cts.map (fun c => (c.splitOn "/").take 2)
        let orig := p.containers.map (fun c => [hexOf c.name, hexOf c.image])
        if light then
          (if names != orig then "fail light-pod-containers-changed"
           else if get "vols" != showList p.volumes then "fail light-pod-volumes-changed"
           else if get "labels" != showLabelSet (mutateLabels p.labels t) then "fail labels-differ"
           else "pass")
        else
          let primIdx := (p.containers.map (·.name)).idxOf t.primaryContainer
          let primOut := ((cts.getD primIdx "").splitOn "/")
          if names.take orig.length != orig then "fail original-containers-not-kept"
          else if names.length != orig.length + 1 then "fail not-exactly-one-collector-container"
          else if get "pns" != "1" then "fail process-namespace-sharing-not-enabled"
          else if get "labels" != showLabelSet (mutateLabels p.labels t) then "fail labels-differ"
          else if !((primOut.getD 4 "").splitOn ",").contains (hexOf envTrialName) then "fail KATIB_TRIAL_NAME-missing"
          else if t.mountPath != "" && !(cts.all (fun c =>
              let f := c.splitOn "/"
              let nm := f.getD 0 ""
              let should := nm == hexOf t.primaryContainer || some nm == (cts.getLast?.map (fun l => (l.splitOn "/").getD 0 ""))
              (((f.getD 5 "").splitOn ",").contains (hexOf metricsVolume ++ ":" ++ hexOf t.mountDir)) == should)) then "fail metrics-volume-not-in-exactly-primary-and-collector"
          else if " ".intercalate out != (handleC12 toks) then "fail mutation-differs-from-specified-wiring"
          else "pass"
    | none => "bad-op"
  | _ => if " ".intercalate out == handleC12 toks then "pass" else "fail trial-ownership-misjudged"

end Katib.Drv
