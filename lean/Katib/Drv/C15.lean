import Katib.Base.Parse
import Katib.Model.Update
namespace Katib.Drv
open Katib Katib.Upd

structure C15Case where
  old : Old Nat
  new : Spec Nat
  createOk : Bool

def pC15 : P C15Case := do
  let op ← P.oint; let om ← P.oint; let of_ ← P.oint; let orest ← P.nat
  let np ← P.oint; let nm ← P.oint; let nf ← P.oint; let nrest ← P.nat
  let trials ← P.int
  -- completion state of the stored experiment: 0 none, 1 Succeeded/MaxTrialsReached, 2 Succeeded/GoalReached, 3 Failed
  let state ← P.nat
  let resume ← P.str
  let completed := state != 0
  -- IsCompletedExperimentRestartable (proved equivalent to this in C16_restartable_iff)
  let restartable := state == 1 && (resume == "LongRunning" || resume == "FromVolume")
  let createOk ← P.bool
  let _path ← P.tok
  pure { old := { spec := ⟨op, om, of_, orest⟩, trials, completed, restartable }, new := ⟨np, nm, nf, nrest⟩, createOk }

def handleC15 (toks : List String) : String :=
  match P.run pC15 toks with
  | none => "bad-op"
  | some c =>
    let e := updErrs c.new c.old
    s!"e1={b01 e.notRestartable} e2={b01 e.maxNotAbove} e3={b01 e.forbidden} admitted={b01 (admitUpdate c.createOk c.new c.old)}"

/-- the property on an observed verdict: admitted ⇔ the statement's right-hand side (creation checks passing) -/
def oracleLineC15 (toks out : List String) : String :=
  match P.run pC15 toks, out with
  | some c, _ :: _ =>
    if out == ["panic"] then "fail validator-crashed" else
    if out.any (·.startsWith "WEBHOOK=") then "fail admission-handler-judged-another-stored-object-than-the-request's-old-object" else
    let admitted := out.contains "admitted=1"
    let specEq := decide (c.new = c.old.spec)
    let allowed := c.createOk && (specEq || (c.new.rest == c.old.spec.rest && (!c.old.completed || c.old.restartable) &&
      (match c.new.max with | some m => decide (m > c.old.trials) | none => true)))
    if admitted == allowed then "pass"
    else if admitted then "fail update-admitted-although-forbidden" else "fail admissible-update-rejected"
  | _, _ => "bad-op"

end Katib.Drv
