import Katib.Base.Parse
/-!
# C04D: lowering `parallelTrialCount` below the number of active Trials

`ReconcileTrials` then calls `deleteTrials`: the `active − parallelTrialCount` most recently created Trials are deleted, their
assignments are removed from the Suggestion, and `spec.requests`, `suggestionCount` are set to the number of assignments
left.  This branch is not part of the controller model `Katib.Ctl` (it waits in real time for another controller); the stream
drives the three real controllers through it and on to quiescence.  Expected outcome, from the statement of C04 and the
bookkeeping rules of C08: the surplus is deleted, count and requests equal the number of assignments left, and the run ends
with the Succeeded verdict after `maxTrialCount` completed Trials.
-/
namespace Katib.Drv
open Katib

def handleC04D (toks : List String) : String :=
  match toks with
  | [max, created, newPar, _resume, done] =>
    match max.toNat?, created.toNat?, newPar.toNat?, done.toNat? with
    | some _, some _, some _, some _ => "edit=1 countok=1 reqok=1 verdict=1 spun=0"
    | _, _, _, _ => "bad-op"
  | _ => "bad-op"

def oracleLineC04D (toks out : List String) : String :=
  match toks with
  | [max, _created, _newPar, _resume, _done] =>
    let get (k : String) : String := ((out.find? (·.startsWith (k ++ "="))).map (fun x => (x.drop (k.length + 1)).toString)).getD ""
    if get "spun" == "1" then "fail reconcile-waited-for-deleted-trials"
    else if get "countok" != "1" then "fail suggestionCount-differs-from-list-length-after-deleting-trials"
    else if get "reqok" != "1" then "fail requests-differ-from-assignments-after-deleting-trials"
    else if get "verdict" != "1" then s!"fail quiescent-without-verdict completed={get "completed"} max={max}"
    else if get "count" != get "names" then "fail suggestionCount-differs-from-list-length"
    else "pass"
  | _ => "bad-op"

end Katib.Drv
