import Katib.Base.Hex
import Katib.Model.Metrics
import Katib.Oracle.C11
namespace Katib.Drv
open Katib Katib.Metrics

def parseTs (s : String) : Option Int :=
  match s.splitOn ":" with
  | [a, b] => match a.toInt?, b.toInt? with
    | some x, some y => some (x * 1000000000 + y)
    | _, _ => none
  | _ => none

def parseEntries : List String → List Entry
  | m :: t :: k :: ts :: r =>
    { metric := unhex m, text := unhex t, key := optInt k, ts := parseTs ts } :: parseEntries r
  | _ => []

def parseObs (toks : List String) : Option (List Obs) :=
  toks.mapM (fun t => match t.splitOn ":" with
    | [a, b, c, d] => some { name := unhex a, min := unhex b, max := unhex c, latest := unhex d }
    | _ => none)

def parseC11 (toks : List String) : Option (List Entry × List String) :=
  match toks with
  | n :: rest =>
    match n.toNat? with
    | none => none
    | some ns =>
      let strategies := (rest.take ns).map unhex
      match rest.drop ns with
      | ";" :: ne :: es =>
        if ne.toNat? != some (es.length / 4) || es.length % 4 != 0 then none
        else some (parseEntries es, strategies)
      | _ => none
  | _ => none

/-- oracle on an observed output line: `ok <rec>*` or `err` -/
def oracleLineC11 (toks : List String) (out : List String) : String :=
  match parseC11 toks with
  | none => "bad-op"
  | some (es, s) =>
    match out with
    | ["err"] => if oracleC11 es s none then "pass" else "fail error-return-not-justified"
    | "ok" :: recs =>
      match parseObs recs with
      | none => "bad-out"
      | some obs => if oracleC11 es s (some obs) then "pass" else "fail summary-violates-property"
    | _ => "fail unexpected-outcome"

/-- `C11 <ns> <strategy>* ; <ne> (<metric> <text> <key|none> <sec:nsec|bad>)*` -/
def handleC11 (toks : List String) : String :=
  match toks with
  | n :: rest =>
    match n.toNat? with
    | none => "bad-op"
    | some ns =>
      let strategies := (rest.take ns).map unhex
      match rest.drop ns with
      | ";" :: ne :: es =>
        if ne.toNat? != some (es.length / 4) || es.length % 4 != 0 then "bad-op" else
        match getMetrics (parseEntries es) strategies with
        | none => "err"
        | some ms =>
          let outs := ms.map (fun m => s!"{hexOf m.name}:{hexOf m.min}:{hexOf m.max}:{hexOf m.latest}")
          "ok " ++ " ".intercalate (sortStrings outs)
      | _ => "bad-op"
  | _ => "bad-op"

end Katib.Drv
