import Katib.Base.Hex
import Katib.Model.Metrics
import Katib.Oracle.C11
namespace Katib.Drv
open Katib Katib.Metrics

def parseTs (s : String) : Option Int :=
  match s.splitOn ":" with
  | [a, b] => match a.toInt?, b.toInt? with
    | some x, some y => some (x * 1000000000 + y)
    | _, _ => none
  | _ => none

def parseEntries : List String → List Entry
  | m :: t :: k :: ts :: r =>
    { metric := unhex m, text := unhex t, key := optInt k, ts := parseTs ts } :: parseEntries r
  | _ => []

def parseObs (toks : List String) : Option (List Obs) :=
  toks.mapM (fun t => match t.splitOn ":" with
    | [a, b, c, d] => some { name := unhex a, min := unhex b, max := unhex c, latest := unhex d }
    | _ => none)

def parseC11 (toks : List String) : Option (List Entry × List String) :=
  match toks with
  | n :: rest =>
    match n.toNat? with
    | none => none
    | some ns =>
      let strategies := (rest.take ns).map unhex
      match rest.drop ns with
      | ";" :: ne :: es =>
        if ne.toNat? != some (es.length / 4) || es.length % 4 != 0 then none
        else some (parseEntries es, strategies)
      | _ => none
  | _ => none

/-- oracle on an observed output line: `ok <rec>*` or `err` -/
def oracleLineC11 (toks : List String) (out : List String) : String :=
  match parseC11 toks with
  | none => "bad-op"
  | some (es, s) =>
    match out with
    | ["err"] => if oracleC11 es s none then "pass" else "fail error-return-not-justified"
    | "ok" :: recs =>
      match parseObs recs with
      | none => "bad-out"
      | some obs => if oracleC11 es s (some obs) then "pass" else "fail summary-violates-property"
    | _ => "fail unexpected-outcome"

/-- `C11 <ns> <strategy>* ; <ne> (<metric> <text> <key|none> <sec:nsec|bad>)*` -/
def handleC11 (toks : List String) : String :=
  match toks with
  | n :: rest =>
    match n.toNat? with
    | none => "bad-op"
    | some ns =>
      let strategies := (rest.take ns).map unhex
      match rest.drop ns with
      | ";" :: ne :: es =>
        if ne.toNat? != some (es.length / 4) || es.length % 4 != 0 then "bad-op" else
        match getMetrics (parseEntries es) strategies with
        | none => "err"
        | some ms =>
          let outs := ms.map (fun m => s!"{hexOf m.name}:{hexOf m.min}:{hexOf m.max}:{hexOf m.latest}")
          "ok " ++ " ".intercalate (sortStrings outs)
      | _ => "bad-op"
  | _ => "bad-op"


/-! `C11F <k> <C11 op>`: the same log fetched by the controller's manager client while the `k`-th query to the DB manager
    fails.  The client asks once for the objective (first strategy) and once per additional metric (the other strategies):
    a failing query must fail the whole read (no partial log, so no verdict from a partial log). -/
def c11Queries (toks : List String) : Nat :=
  match toks with
  | n :: _ => match n.toNat? with | some ns => if ns == 0 then 1 else ns | none => 1
  | _ => 1

def handleC11F (toks : List String) : String :=
  match toks with
  | k :: rest =>
    match k.toNat? with
    | some kk => if kk < c11Queries rest then "err-manager-client" else handleC11 rest
    | none => "bad-op"
  | _ => "bad-op"

def oracleLineC11F (toks out : List String) : String :=
  match toks with
  | k :: rest =>
    match k.toNat? with
    | some kk =>
      if kk < c11Queries rest then
        (if out == ["err-manager-client"] then "pass" else "fail observation-log-read-did-not-fail-although-a-query-failed")
      else oracleLineC11 rest out
    | none => "bad-op"
  | _ => "bad-op"

end Katib.Drv
