import Katib.Base.Parse
import Katib.Model.Convert
namespace Katib.Drv
open Katib Katib.Conv

def pPair : P (String × String) := do let a ← P.str; let b ← P.str; pure (a, b)
def pOptStr : P (Option String) := do let t ← P.tok; pure (if t == "none" then none else some (unhex t))

def pParam : P ParameterSpec := do
  let name ← P.str; let ptype ← P.str; let min ← P.str; let max ← P.str; let step ← P.str; let dist ← P.str
  let list ← P.list P.str
  pure { name, ptype, fs := { max, min, list, step, distribution := dist } }

def pObjective : P Objective := do
  let ty ← P.str; let goal ← pOptStr; let metric ← P.str; let additional ← P.list P.str
  pure { ty, goal, metric, additional }

def pNas : P (Option NasConfig) := do
  let t ← P.tok
  if t == "none" then pure none else do
    let numLayers ← P.oint
    let inputSizes ← P.list P.int
    let outputSizes ← P.list P.int
    let operations ← P.list (do let opType ← P.str; let params ← P.list pParam; pure ({ opType, params } : Operation))
    pure (some { numLayers, inputSizes, outputSizes, operations })

def pES : P (Option (String × List (String × String))) := do
  let t ← P.tok
  if t == "none" then pure none else do
    let s ← P.list pPair
    pure (some (unhex t, s))

def pExpSpec : P ExpSpec := do
  let name ← P.str; let algorithm ← P.str; let settings ← P.list pPair
  let objective ← pObjective
  let params ← P.list pParam
  let nas ← pNas
  let parallel ← P.oint; let maxTrials ← P.oint
  let earlyStopping ← pES
  pure { name, algorithm, settings, objective, params, nas, parallel, maxTrials, earlyStopping }

def hp (p : String × String) : String := hexOf p.1 ++ ":" ++ hexOf p.2
def showPairs (l : List (String × String)) : String := if l.isEmpty then "-" else ",".intercalate (l.map hp)
def showStrs (l : List String) : String := if l.isEmpty then "-" else ",".intercalate (l.map hexOf)
def showInts (l : List Int) : String := if l.isEmpty then "-" else ",".intercalate (l.map toString)

def showParam (p : ParameterSpec) : String :=
  "/".intercalate [hexOf p.name, p.ptype, hexOf p.fs.min, hexOf p.fs.max, hexOf p.fs.step, p.fs.distribution, showStrs p.fs.list]
def showParams (l : List ParameterSpec) : String := if l.isEmpty then "-" else ";".intercalate (l.map showParam)

def showNas (n : Option NasConfig) : String :=
  match n with
  | none => "none"
  | some n => s!"L={n.numLayers.getD 0}~in={showInts n.inputSizes}~out={showInts n.outputSizes}~ops=" ++
      (if n.operations.isEmpty then "-" else "&".intercalate (n.operations.map (fun o => hexOf o.opType ++ "^" ++ showParams o.params)))

def showPExp (p : PExp) : String :=
  s!"name={hexOf p.name} alg={hexOf p.algorithm} settings={showPairs p.settings} objType={p.objType} goal={hexOf p.goal} " ++
  s!"metric={hexOf p.metric} add={showStrs p.additional} params={showParams p.params} nas={showNas p.nas} par={p.parallel} max={p.maxTrials} " ++
  s!"es={match p.earlyStopping with | none => "none" | some (a, s) => hexOf a ++ "|" ++ showPairs s}"

def pMetricObs : P MetricObs := do
  let name ← P.str; let min ← P.str; let max ← P.str; let latest ← P.str
  pure { name, min, max, latest }

def pTrialIn : P TrialIn := do
  let name ← P.str
  let objective ← pObjective
  let strategies ← P.list pPair
  let assignments ← P.list pPair
  let labels ← P.list pPair
  let conditions ← P.list (do let t ← P.tok; let b ← P.bool; pure (t, b))
  let startTime ← P.str; let completionTime ← P.str
  let t ← P.tok
  let obs ← if t == "none" then pure none else match t.toNat? with
    | some n => do let ms ← P.rep pMetricObs n; pure (some ms)
    | none => failure
  pure { name, objective, strategies, assignments, labels, conditions, startTime, completionTime, obs }

def showPTrial (t : PTrial) : String :=
  "/".intercalate [hexOf t.name, t.objType, hexOf t.goal, hexOf t.metric, showStrs t.additional, showPairs t.assignments,
    showPairs t.labels, t.condition, hexOf t.startTime, hexOf t.completionTime, showPairs t.metrics]

/-- rounds: the spec's settings, then per round the service's reply; output: the settings each request carried -/
def runRounds (spec : List (String × String)) (replies : List (List (String × String))) : List String :=
  let rec go (status : List (String × String)) : List (List (String × String)) → List String
    | [] => []
    | r :: rs => showPairs (overlaySettings spec status) :: go (updateSettings status r) rs
  go [] replies

def handleC10 (toks : List String) : String :=
  match toks with
  | "exp" :: r =>
    match P.run (do let e ← pExpSpec; let sug ← P.list pPair; pure (e, sug)) r with
    | some (e, sug) => "ok " ++ showPExp (convertExperiment e sug)
    | none => "bad-op"
  | "trials" :: r =>
    match P.run (P.list pTrialIn) r with
    | some ts => "ok " ++ (let out := (convertTrials ts).map showPTrial; if out.isEmpty then "-" else " ".intercalate out)
    | none => "bad-op"
  | "rounds" :: r =>
    match P.run (do let spec ← P.list pPair; let reps ← P.list (P.list pPair); pure (spec, reps)) r with
    | some (spec, reps) => "ok " ++ " ".intercalate (runRounds spec reps)
    | none => "bad-op"
  | ["field", _path, changed, allow] =>
    -- a field of the API types must reach the request unless it is in the consumed-locally allow-list
    if changed == "1" || allow == "1" then "ok conveyed-or-consumed-locally" else "ok NOT-CONVEYED"
  | _ => "bad-op"

def oracleLineC10 (toks out : List String) : String :=
  match toks with
  | ["field", _p, changed, allow] => if changed == "1" || allow == "1" then "pass" else "fail field-not-conveyed-to-the-algorithm-service"
  | _ =>
    let want := handleC10 toks
    if want == "bad-op" then "bad-op"
    else if " ".intercalate out == want.trimAscii.toString then "pass" else "fail request-is-not-a-faithful-image-of-the-resources"

end Katib.Drv
