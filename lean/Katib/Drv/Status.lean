import Katib.Base.Parse
import Katib.Model.ExpStatus
import Katib.Oracle.Status
namespace Katib.Drv
open Katib Katib.Exp

def pCT : P CT := do
  let t ← P.tok
  match t with
  | "Created" => pure .created | "Running" => pure .running | "Restarting" => pure .restarting
  | "Succeeded" => pure .succeeded | "Failed" => pure .failed | _ => failure

def ctName : CT → String
  | .created => "Created" | .running => "Running" | .restarting => "Restarting"
  | .succeeded => "Succeeded" | .failed => "Failed"

def pECond : P ECond := do
  let ty ← pCT; let st ← P.bool; let r ← P.str; let tt ← P.nat
  pure { ty := ty, st := st, reason := r, tt := tt }

def pStrat : P Strat := do
  let t ← P.tok
  pure (match t with | "min" => .min | "max" => .max | "latest" => .latest | _ => .other)

def pMetricV : P MetricV := do
  let n ← P.str; let a ← P.str; let ak ← P.oint; let b ← P.str; let bk ← P.oint; let c ← P.str; let ck ← P.oint
  pure { name := n, min := a, minK := ak, max := b, maxK := bk, latest := c, latestK := ck }

def pTrialV : P TrialV := do
  let name ← P.str
  let mask ← P.nat
  let objName ← P.str
  let strategies ← P.list (do let n ← P.str; let s ← pStrat; pure (n, s))
  let hasObs ← P.tok
  let obs ← if hasObs == "none" then pure none else do
    match hasObs.toNat? with
    | some k => let ms ← P.rep pMetricV k; pure (some ms)
    | none => failure
  let bit (i : Nat) : Bool := (mask / 2 ^ i) % 2 == 1
  pure { name, killed := bit 0, failed := bit 1, succeeded := bit 2, earlyStopped := bit 3, running := bit 4,
         metricsUnavailable := bit 5, objName, strategies, obs }

structure StatusCase where
  obj : Objective
  budget : Budget
  status : Status
  now : Nat
  trials : List TrialV

def pStatusCase : P StatusCase := do
  let ty ← P.tok
  let oty : ObjType := match ty with | "minimize" => .minimize | "maximize" => .maximize | _ => .other
  let goal ← P.oint
  let maxT ← P.oint
  let maxF ← P.oint
  let conds ← P.list pECond
  let completion ← P.onat
  let now ← P.nat
  let trials ← P.list pTrialV
  pure { obj := { ty := oty, goal }, budget := { maxTrials := maxT, maxFailed := maxF },
         status := { conds, completion }, now, trials }

def showConds (cs : List ECond) : String :=
  ";".intercalate (cs.map (fun c => s!"{ctName c.ty}:{b01 c.st}:{hexOf c.reason}"))

def showCompletion (c : Option Nat) (now : Nat) : String :=
  match c with
  | none => "none"
  | some t => if t == now then "new" else "old"

def showStatusOut (l : Loop) (s : Status) (now : Nat) : String :=
  let ls := l.lists
  s!"ok t={l.trials} K={hexList ls.killed} F={hexList ls.failed} S={hexList ls.succeeded} E={hexList ls.earlyStopped} " ++
  s!"R={hexList ls.running} M={hexList ls.metricsUnavailable} P={hexList ls.pending} " ++
  s!"best={match l.best with | some t => hexOf t.name | none => "none"} " ++
  s!"conds={showConds s.conds} completion={showCompletion s.completion now} " ++
  s!"counters={ls.killed.length}/{ls.failed.length}/{ls.succeeded.length}/{ls.earlyStopped.length}/{ls.running.length}/{ls.metricsUnavailable.length}/{ls.pending.length}"

def handleStatus (toks : List String) : String :=
  match P.run pStatusCase toks with
  | none => "bad-op"
  | some c =>
    let (l, s) := updateStatus c.obj c.budget c.trials c.status c.now
    showStatusOut l s c.now

end Katib.Drv

namespace Katib.Drv
open Katib Katib.Exp

def kv (toks : List String) (k : String) : Option String :=
  (toks.find? (fun t => t.startsWith (k ++ "="))).map (fun t => (t.drop (k.length + 1)).toString)

def parseNames (s : String) : List String := if s == "" then [] else (s.splitOn ",").map unhex

def parseObsConds (s : String) : Option (List ECond) :=
  if s == "" then some [] else
  (s.splitOn ";").mapM (fun c => match c.splitOn ":" with
    | [ty, st, r] =>
      match P.run pCT [ty] with
      | some t => some { ty := t, st := st == "1", reason := unhex r }
      | none => none
    | _ => none)

def parseObsStatus (out : List String) : Option ObsStatus := do
  match out with
  | "ok" :: r =>
    let t ← (← kv r "t").toNat?
    let g (k : String) : Option (List String) := (kv r k).map parseNames
    let lists : Lists := { killed := ← g "K", failed := ← g "F", succeeded := ← g "S", earlyStopped := ← g "E",
                           running := ← g "R", metricsUnavailable := ← g "M", pending := ← g "P" }
    let counters ← ((← kv r "counters").splitOn "/").mapM (·.toNat?)
    let bestS ← kv r "best"
    let payloadOk := !(bestS.splitOn "!").length > 1
    let bestN := (bestS.splitOn "!").head!
    let best := if bestN == "none" then none else some (unhex bestN)
    let conds ← parseObsConds (← kv r "conds")
    let completion ← kv r "completion"
    pure { trials := t, lists, counters, best, payloadOk, conds, completion }
  | _ => none

def oracleLineStatus (prop : String) (toks out : List String) : String :=
  match P.run pStatusCase toks with
  | none => "bad-op"
  | some c =>
    match parseObsStatus out with
    | none => "fail unparsable-or-error-outcome"
    | some o =>
      if prop == "C05" then oracleC05 c.obj c.trials o
      else oracleC03 c.obj c.budget c.trials c.status o

end Katib.Drv
