import Katib.Base.Parse
import Katib.Model.Admission
import Katib.Drv.C02
namespace Katib.Drv
open Katib Katib.Adm

def pOpt14 {α : Type} (p : P α) : P (Option α) := do
  let h ← P.bool
  if h then (do let a ← p; pure (some a)) else pure none

def pObjective14 : P Objective := do
  let typ ← P.str; let metric ← P.str; let additional ← P.list P.str
  pure { typ, metric, additional }

def pParam14 : P Param := do
  let name ← P.str; let ptype ← P.str; let min ← P.str; let max ← P.str; let step ← P.str
  let list ← P.list P.str; let dist ← P.str
  pure { name, ptype, min, max, step, list, dist }

def pTP14 : P TP := do
  let name ← P.str; let ref ← P.str; let isMeta ← P.bool; let gref ← pRef
  pure { name, ref, isMeta, gref }

def pKindClass14 : P KindClass := do
  let t ← P.tok
  pure (match t with | "job" => .job | "kubeflow" => .kubeflow | _ => .other)

def pTmpl14 : P Tmpl := do
  let primary ← P.str; let success ← P.str; let failure ← P.str
  let tparams ← pOpt14 (P.list pTP14)
  let hasSpec ← P.bool; let hasCM ← P.bool; let cmComplete ← P.bool
  let kindClass ← pKindClass14
  let text ← pOpt14 P.str
  pure { primary, success, failure, tparams, hasSpec, hasCM, cmComplete, kindClass, text }

def pDry14 : P DryRun := do
  let leftover ← P.bool; let parses ← P.bool; let nameOmitted ← P.bool; let gvkSet ← P.bool; let jobOk ← P.bool
  pure { leftover, parses, nameOmitted, gvkSet, jobOk }

def pFSP14 : P FSP := do let path ← P.str; let kind ← P.str; let format ← P.str; pure { path, kind, format }
def pHttp14 : P HttpGet := do let path ← P.str; let portZero ← P.bool; let portPositive ← P.bool; pure { path, portZero, portPositive }
def pFilterRe14 : P FilterRe := do let compiles ← P.bool; let twoGroups ← P.bool; pure { compiles, twoGroups }
def pSource14 : P Source := do
  let fsp ← pOpt14 pFSP14; let httpGet ← pOpt14 pHttp14; let filter ← pOpt14 (P.list pFilterRe14)
  pure { fsp, httpGet, filter }
def pCollector14 : P Collector := do let kind ← P.str; let custom ← P.bool; pure { kind, custom }
def pMC14 : P MC := do
  let collector ← pOpt14 pCollector14; let source ← pOpt14 pSource14
  pure { collector, source }

def pExp14 : P Exp := do
  let name ← P.str
  let max ← P.oint; let parallel ← P.oint; let maxFailed ← P.oint
  let objective ← pOpt14 pObjective14
  let algorithm ← pOpt14 P.str; let algoKnown ← P.bool
  let earlyStopping ← pOpt14 P.str; let esKnown ← P.bool
  let resume ← P.str
  let params ← P.list pParam14
  let nas ← P.bool
  let template ← pOpt14 pTmpl14
  let dry ← pDry14
  let mc ← pOpt14 pMC14
  let mcCfgKnown ← P.bool
  pure { name, budget := { max, parallel, maxFailed }, objective, algorithm, algoKnown, earlyStopping, esKnown, resume, params, nas, template, dry, mc, mcCfgKnown }

/-- what the battery needs besides the Experiment: metadata of the template's run object and the assignments to try -/
structure Battery where
  kind : String
  apiVersion : String
  labels : List (String × String)
  annotations : List (String × String)
  assignments : List (List (String × String))

def pBattery14 : P Battery := do
  let kind ← P.str; let apiVersion ← P.str
  let labels ← P.list pSPair; let annotations ← P.list pSPair
  let assignments ← P.list (P.list pSPair)
  pure { kind, apiVersion, labels, annotations, assignments }

def showOutcome14 : Outcome → String
  | .crash => "crash"
  | .errs [] => "admitted"
  | .errs l => "rejected " ++ ",".intercalate l

def tparamsOf14 (e : Exp) : List (String × Tpl.Ref) :=
  match e.template with
  | some { tparams := some tps, .. } => tps.map (fun p => (p.name, p.gref))
  | _ => []

/-- the generator's verdict on one assignment (placeholder map only; JSON conversion is not predicted) -/
def predictRun14 (e : Exp) (b : Battery) (asg : List (String × String)) : String :=
  let m : Tpl.Meta := { trialName := "trial-x", trialNamespace := "ns", kind := b.kind, apiVersion := b.apiVersion, annotations := b.annotations, labels := b.labels }
  match Tpl.placeholders m asg (tparamsOf14 e) with
  | .ok _ => "ok"
  | .error e => errStr e

def handleC14 (toks : List String) : String :=
  match toks with
  | "validate" :: r =>
    match P.run (do let e ← pExp14; let b ← pBattery14; pure (e, b)) r with
    | some (e, b) =>
      let d := e.setDefault
      let out := validate d
      let dry := match dryText d.template (d.params.map (·.name)) with
        | some t => hexOf (String.ofList t)
        | none => "none"
      showOutcome14 out ++ " dry=" ++ dry
    | none => "bad-op"
  | "name" :: r =>
    -- the naming rules on arbitrary strings: `name <nameHex>` -> admitted?
    match P.run P.str r with
    | some n => b01 (nameAdmitted n.toList)
    | none => "bad-op"
  | "dns" :: r =>
    match P.run P.str r with
    | some n => b01 (dns1035 n.toList) ++ " " ++ b01 (dns1123Label n.toList)
    | none => "bad-op"
  | _ => "bad-op"

def hasMetaChar14 (s : String) : Bool := s.toList.any (fun c => c == '"' || c == '\\' || c.val < 32)

/-- the property on one admitted Experiment: `out` = impl line (incl. the part after `##`) -/
def oracleLineC14 (toks out : List String) : String :=
  if out.head? == some "panic" then "fail validation-crashed" else
  -- the same object through the real admission handlers (CREATE, then the original manifest re-applied as an UPDATE)
  if let some t := out.find? (·.startsWith "WEBHOOK=") then s!"fail admission-handlers-{(t.drop 8).toString}" else
  match toks with
  | "validate" :: r =>
    match P.run (do let e ← pExp14; let b ← pBattery14; pure (e, b)) r with
    | some (e0, b) =>
      let e := e0.setDefault
      if out.head? != some "admitted" then "pass" else
      let get (k : String) : String := ((out.find? (·.startsWith (k ++ "="))).map (fun x => (x.drop (k.length + 1)).toString)).getD ""
      -- derived names
      let names := ((get "names").splitOn ",").filter (· != "")
      let badNames := names.filter (fun h => !dns1035 (unhex h).toList)
      let algo := (e.algorithm.getD "").toList
      -- budget
      let bd := e.budget
      let budgetOk := (match bd.parallel with | some p => decide (p ≥ 1) | none => false) &&
        (match bd.max with | some m => decide (m ≥ 1) && (match bd.parallel with | some p => decide (p ≤ m) | none => false) | none => true) &&
        (match bd.maxFailed with | some f => decide (f ≥ 0) && (match bd.max with | some m => decide (f ≤ m) | none => true) | none => true)
      -- pointers the controllers dereference (observed on the real defaulted object)
      let ptr := get "ptr"
      -- generator runs
      let runs := ((get "run").splitOn ";").filter (· != "-")
      let unconsumed := e.params.any (fun p => !(tparamsOf14 e).any (fun tp => tp.2 == .assign p.name))
      let metaUnresolvable := (tparamsOf14 e).any (fun tp => match tp.2 with
        | .metaLabel k => !(b.labels.any (·.1 == k))
        | .metaAnnotation k => !(b.annotations.any (·.1 == k))
        | .illegal => true
        | _ => false)
      let verdicts := (runs.zip b.assignments).map (fun ra =>
        let res := ra.1
        let asg := ra.2
        let pred := predictRun14 e b asg
        if res == "err:json" then
          (if asg.any (fun p => hasMetaChar14 p.2) then "known C14-json-metacharacter-in-feasible-value" else "fail admitted-experiment-cannot-instantiate-its-template:" ++ res)
        else if (if res == "ok" then "ok" else "err " ++ (res.drop 4).toString) != pred then "fail generator-differs-from-model:" ++ res ++ "/" ++ pred
        else if res == "ok" then "pass"
        else if res == "err:notInTrialParameters" ∧ unconsumed then "known C14-parameter-not-consumed-by-template"
        else if e.nas && e.params.isEmpty && (res == "err:notInTrialParameters" || res == "err:notInAssignment") then
          "known C14-nas-trial-parameters-unchecked"
        else if res == "err:illegalMeta" ∧ metaUnresolvable then "known C14-unresolvable-trial-metadata-reference"
        else "fail admitted-experiment-cannot-instantiate-its-template:" ++ res)
      if e.algorithm.isSome && !e.algoKnown then "fail admitted-with-an-algorithm-katib-config-does-not-define"
      else if e.earlyStopping.isSome && !e.esKnown then "fail admitted-with-an-early-stopping-algorithm-katib-config-does-not-define"
      else if !budgetOk then "fail admitted-budget-inconsistent"
      else if ptr.toList.any (· == '0') then "fail admitted-with-nil-pointer:" ++ ptr
      else if !badNames.isEmpty then (if !algoOk algo then "known C14-algorithm-name-unconstrained" else "fail admitted-name-yields-illegal-resource-name")
      else if runs.length != b.assignments.length then "fail battery-incomplete"
      else match verdicts.find? (·.startsWith "fail") with
        | some f => f
        | none => match verdicts.find? (·.startsWith "known") with
          | some k => k
          | none => "pass"
    | none => "bad-op"
  | "name" :: r =>
    -- admitted names must give legal Service names for every legal algorithm name; judged on the Go side's k8s validators
    match P.run P.str r with
    | some n =>
      (match out with
       | [adm, svcOk] => if adm == "1" ∧ svcOk == "0" then "fail admitted-name-yields-illegal-service-name" else if adm != b01 (nameAdmitted n.toList) then "fail name-rule-differs" else "pass"
       | _ => "bad-out")
    | none => "bad-op"
  | _ => "pass"

end Katib.Drv
