import Katib.Base.Parse
import Katib.Model.Ui
namespace Katib.Drv
open Katib Katib.Ui Katib.Gen

def allowOf (script : String) (ns : String) : Bool :=
  if script == "allowall" then true
  else if script == "denyall" then false
  else if script.startsWith "allow:" then (script.drop 6).toString == ns
  else false

/-- `allowfirst:<ns>` / `errsecond:<ns>`: only the first review of a request (in `<ns>`) is allowing; every later one is
    denied, respectively fails -/
def allowOfN (script : String) (ns : String) (i : Nat) : Bool :=
  if script.startsWith "allowfirst:" then i == 0 && (script.drop 11).toString == ns
  else if script.startsWith "errsecond:" then i == 0 && (script.drop 10).toString == ns
  else allowOf script ns

/-- `C20 <routeHex> <hdr> <script> <reqNs>`: the answer of the handler's gates, from the regenerated table -/
def handleC20 (toks : List String) : String :=
  match toks.take 4 with
  | [route, hdr, script, reqNs] =>
    match uiRoutes.find? (fun r => r.path == unhex route) with
    | none => "bad-op"
    | some r =>
      -- every gate's namespace expression evaluates to the namespace of the request
      let st := gateStatusN (hdr == "1") (fun i => allowOfN script reqNs i) r.events 0
      if st == 401 then "gate=401" else if st == 403 then "gate=403" else "gate=pass"
  | _ => "bad-op"

def templatePaths : List String := ["/katib/add_template/", "/katib/delete_template/", "/katib/edit_template/", "/katib/fetch_trial_templates/"]

/-- the property on an observed run: `status=<n> trace=<ev,..> respns=<ns,..>` with events `sar:<ns>:<0/1>` and
    `data:<verb>:<kind>:<ns>` -/
def oracleLineC20 (toks out : List String) : String :=
  match toks.take 4 with
  | [route, hdr, _script, _reqNs] =>
    let path := unhex route
    let expectedUser := toks.getD 4 ""
    let get (k : String) : String := ((out.find? (·.startsWith (k ++ "="))).map (fun t => (t.drop (k.length + 1)).toString)).getD ""
    let status := (get "status").toNat?.getD 0
    let evs := if get "trace" == "" || get "trace" == "-" then [] else (get "trace").splitOn ","
    let respNs := if get "respns" == "" || get "respns" == "-" then [] else (get "respns").splitOn ","
    let isTemplate := templatePaths.contains path
    -- walk the trace
    let step (st : List String × Bool × Option String) (ev : String) : List String × Bool × Option String :=
      let (allowed, denied, bad) := st
      match ev.splitOn ":" with
      | "sar" :: ns :: a :: rest =>
        -- the review must be made for the user named by the identity header (after the configured prefix)
        if bad.isNone && expectedUser != "" && rest.head?.isSome && rest.head? != some expectedUser then
          (allowed, denied, some s!"review-issued-for-another-user {(rest.headD "")}")
        else if a == "1" then (ns :: allowed, denied, bad) else (allowed, true, bad)
      | ["data", _verb, kind, ns] =>
        if kind == "Namespace" then st
        else if bad.isSome then st
        else if denied then (allowed, denied, some s!"data-access-after-denied-review {kind}/{ns}")
        else if !allowed.contains ns then (allowed, denied, some s!"data-access-without-allowing-review {kind}/{ns}")
        else st
      | ["db", trial, ns] =>
        -- the observation-log store is keyed by the bare trial name: a read is legitimate only for a Trial that was found
        -- in a namespace for which the user was reviewed and allowed
        if bad.isSome then st
        else if denied then (allowed, denied, some s!"observation-log-read-after-denied-review {trial}")
        else if ns == "-" then (allowed, denied, some s!"observation-log-read-for-a-trial-not-found-in-the-reviewed-namespace {trial}")
        else if !allowed.contains ns then (allowed, denied, some s!"observation-log-read-without-allowing-review {trial}/{ns}")
        else st
      | _ => st
    let (allowed, denied, bad) := evs.foldl step ([], false, none)
    -- the known finding on the trial-template routes, as recorded: ConfigMaps are listed before any review, a denied review
    -- or a missing user header is answered 500 instead of 403/401, and the katib namespace's own templates are returned
    -- unreviewed.  Anything else on these routes (objects of another unreviewed namespace in the response, data access
    -- after a denied review, writes without review) is judged like on every other route.
    let katibNs := "kubeflow"
    let knownBad (b : String) : Bool := isTemplate && (b.startsWith "data-access-without-allowing-review ConfigMap/")
    let listsOnly := evs.all (fun ev => match ev.splitOn ":" with
      | ["data", verb, kind, ns] => kind == "Namespace" || allowed.contains ns || (kind == "ConfigMap" && (verb == "list" || (verb == "get" && ns == katibNs)))
      | _ => true)
    if isTemplate && respNs.any (fun n => !allowed.contains n && n != katibNs) then
      "fail response-contains-objects-of-unauthorised-namespace" else
    match bad with
    | some b => if knownBad b && listsOnly then "known C20-template-routes" else "fail " ++ b
    | none =>
      let touched := evs.any (fun ev => match ev.splitOn ":" with | ["data", _, kind, _] => kind != "Namespace" | _ => false)
      if respNs.any (fun n => !allowed.contains n && !(isTemplate && n == katibNs)) then
        "fail response-contains-objects-of-unauthorised-namespace"
      else if respNs.any (fun n => !allowed.contains n) then "known C20-template-routes"
      else if hdr == "0" && status != 401 && status != 400 && (touched || !respNs.isEmpty) then
        (if isTemplate && status == 500 then "known C20-template-routes" else "fail no-user-header-but-not-401")
      else if denied && status != 403 then
        (if isTemplate && status == 500 then "known C20-template-routes" else "fail denied-review-but-not-403")
      else "pass"
  | _ => "bad-op"

end Katib.Drv
