import Katib.Base.Parse
import Katib.Model.Sim
import Katib.Drv.Status
import Katib.Oracle.Sim
namespace Katib.Drv
open Katib Katib.Exp Katib.Ctl

def tctName : TCT → String
  | .created => "Created" | .running => "Running" | .succeeded => "Succeeded" | .killed => "Killed"
  | .failed => "Failed" | .metricsUnavailable => "MetricsUnavailable" | .earlyStopped => "EarlyStopped"
def sctName : SCT → String
  | .created => "Created" | .deploymentReady => "DeploymentReady" | .running => "Running"
  | .succeeded => "Succeeded" | .failed => "Failed"

def condsStr {τ : Type} (nm : τ → String) (cs : List (Cond τ)) : String :=
  if cs.isEmpty then "-" else ",".intercalate (cs.map (fun c => s!"{nm c.ty}:{b01 c.st}:{hexOf c.reason}"))

def optIntStr (o : Option Int) : String := match o with | some n => toString n | none => "none"
def optNatStr (o : Option Nat) : String := match o with | some n => toString n | none => "none"
def dashJoin (l : List String) : String := if l.isEmpty then "-" else ",".intercalate l

def dumpWorld (w : World) : String :=
  let es := w.exps.map (fun e =>
    s!"E {e.key.ns} {e.key.name} {b01 e.deleted} {b01 e.fin} {e.par} {optIntStr e.maxT} {optIntStr e.maxF} " ++
    s!"{condsStr ctName e.st.conds} {optNatStr e.st.completion} " ++
    s!"{e.st.trials}/{"/".intercalate (e.st.counts.map toString)} " ++
    (match e.st.opt with
     | none => "-"
     | some n => n ++ "@" ++ ",".intercalate (e.st.optObs.map (fun (m : Metrics.Metric) => s!"{hexOf m.name}:{hexOf m.min}:{hexOf m.max}:{hexOf m.latest}"))))
  let ss := w.sugs.map (fun s =>
    s!"S {s.key.ns} {s.key.name} {s.requests} {s.st.count} {dashJoin s.st.names} {condsStr sctName s.st.conds}")
  let ts := w.trials.map (fun t =>
    let obs := match t.st.obs with
      | none => "-"
      | some ms => "obs=" ++ ",".intercalate (ms.map (fun (m : Metrics.Metric) => s!"{hexOf m.name}:{hexOf m.min}:{hexOf m.max}:{hexOf m.latest}"))
    s!"T {t.key.ns} {t.key.name} {t.exp} {b01 t.deleted} {b01 t.fin} {condsStr tctName t.st.conds} {optNatStr t.st.completion} {obs}")
  let js := w.jobs.map (fun j =>
    let st := match j.state with | .running => "r" | .succeeded => "s" | .failed => "f" | .both => "b"
    s!"J {j.key.ns} {j.key.name} {st}")
  let ds := w.deploys.map (fun d => s!"D {d.key.ns} {d.key.name} {b01 d.ready}")
  let simple (tag : String) (l : List Key2) := l.map (fun k => s!"{tag} {k.ns} {k.name}")
  let ms := w.db.map (fun p => s!"M {p.1} {dashJoin (p.2.map (fun e => if e.metric = objMetric then hexOf e.text else hexOf e.metric ++ "@" ++ hexOf e.text))}")
  let all := es ++ ss ++ ts ++ js ++ ds ++ simple "V" w.svcs ++ simple "P" w.pvcs ++ simple "A" w.sas ++
    simple "O" w.roles ++ simple "B" w.rbs ++ ms ++ [s!"X {w.algoN}"]
  " ; ".intercalate (Ctl.sortS all)

def pKey2 : P Key2 := do let ns ← P.tok; let name ← P.tok; pure { ns, name }

def pResume : P Resume := do
  let t ← P.tok
  match t with
  | "never" => pure .never | "fromVolume" => pure .fromVolume | "longRunning" => pure .longRunning | _ => failure

def pObjType : P ObjType := do
  let t ← P.tok
  pure (match t with | "minimize" => .minimize | "maximize" => .maximize | _ => .other)

def pExpInit : P ExpInit := do
  let key ← pKey2
  let par ← P.int; let maxT ← P.oint; let maxF ← P.oint; let goal ← P.oint
  let objType ← pObjType; let resume ← pResume
  let es ← P.bool; let retain ← P.bool; let push ← P.bool; let labels ← P.bool
  pure { key, par, maxT, maxF, cfg := { goal, objType, resume, es, retain, push, labels } }

def pFaults : P Faults := do
  let mask ← P.nat
  let abort ← P.onat
  pure { mask, abort }

inductive SimCmd | init (es : List ExpInit) | op (o : Op)

def pSimCmd : P SimCmd := do
  let t ← P.tok
  match t with
  | "init" => do let es ← P.list pExpInit; pure (.init es)
  | "recExp" => do
    let k ← pKey2; let vE ← P.nat; let vT ← P.nat; let vS ← P.nat; let f ← pFaults
    pure (.op (.recExp k vE vT vS f))
  | "recSug" => do
    let k ← pKey2; let vS ← P.nat; let vE ← P.nat; let vT ← P.nat; let vD ← P.nat; let f ← pFaults
    let am ← P.nat; let em ← P.nat
    pure (.op (.recSug k vS vE vT vD f { algoMode := am, esMode := em }))
  | "recTrial" => do
    let k ← pKey2; let vT ← P.nat; let f ← pFaults
    pure (.op (.recTrial k vT f))
  | "job" => do
    let k ← pKey2; let w ← P.tok
    pure (.op (.job k (w == "succeeded")))
  | "metric" => do
    let t ← P.tok; let text ← P.str; let key ← P.oint; let nm ← P.str
    pure (.op (.metric t text key nm))
  | "earlystop" => do let k ← pKey2; pure (.op (.earlyStop k))
  | "deployReady" => do let k ← pKey2; pure (.op (.deployReady k))
  | "editMax" => do let k ← pKey2; let n ← P.int; pure (.op (.editMax k n))
  | "jobGone" => do let k ← pKey2; pure (.op (.jobGone k))
  | "userDelete" => do let k ← pKey2; pure (.op (.userDelete k))
  | "quiesce-begin" => do let _ ← pKey2; pure (.op .noop)
  | "quiesce-end" => do let _ ← pKey2; pure (.op .noop)
  | _ => failure

/-- stateful handler: returns the new simulator state and the canonical outcome line -/
def handleSim (s : Sim) (toks : List String) : Sim × String :=
  match P.run pSimCmd toks with
  | none => (s, "bad-op")
  | some (.init es) =>
    let s' := Sim.init es
    (s', "ok | " ++ dumpWorld s'.cur)
  | some (.op o) =>
    let (s', out) := step s o
    (s', out ++ " | " ++ dumpWorld s'.cur)

end Katib.Drv

namespace Katib.Drv
open Katib Katib.Exp Katib.Ctl

/-! ### parsing an observed store dump back into a `World` (rv unknown) -/

def splitOnTok (sep : String) (toks : List String) : List (List String) :=
  let (acc, cur) := toks.foldl (fun (p : List (List String) × List String) t =>
    if t == sep then (p.1 ++ [p.2], []) else (p.1, p.2 ++ [t])) ([], [])
  acc ++ [cur]

def parseConds {τ : Type} (ofName : String → Option τ) (s : String) : Option (List (Cond τ)) :=
  if s == "-" then some [] else
  (s.splitOn ",").mapM (fun c => match c.splitOn ":" with
    | [ty, st, r] => (ofName ty).map (fun t => { ty := t, st := st == "1", reason := unhex r })
    | _ => none)

def ctOf (s : String) : Option CT := P.run pCT [s]
def tctOf : String → Option TCT
  | "Created" => some .created | "Running" => some .running | "Succeeded" => some .succeeded | "Killed" => some .killed
  | "Failed" => some .failed | "MetricsUnavailable" => some .metricsUnavailable | "EarlyStopped" => some .earlyStopped | _ => none
def sctOf : String → Option SCT
  | "Created" => some .created | "DeploymentReady" => some .deploymentReady | "Running" => some .running
  | "Succeeded" => some .succeeded | "Failed" => some .failed | _ => none

def dashList (s : String) : List String := if s == "-" then [] else s.splitOn ","

def defaultCfg : ExpCfg := { goal := none, objType := .maximize, resume := .longRunning, es := false, retain := false, push := false, labels := false }

def parseItem (cfgs : List ExpInit) (w : World) (it : List String) : Option World :=
  let cfgFor (k : Key2) : ExpCfg := match cfgs.find? (fun c => c.key = k) with | some c => c.cfg | none => defaultCfg
  match it with
  | ["E", ns, name, del, fin, par, max, mf, conds, compl, cnts, opt] => do
    let cs ← parseConds ctOf conds
    let nums ← (cnts.splitOn "/").mapM (·.toNat?)
    let key : Key2 := { ns, name }
    let parI ← par.toInt?
    let st : ExpSt :=
      { conds := cs, completion := compl.toNat?, trials := nums.headD 0, counts := nums.drop 1,
        opt := if opt == "-" then none else some ((opt.splitOn "@").headD opt) }
    let e : ExpO :=
      { key, rv := 0, deleted := del == "1", fin := fin == "1", par := parI, maxT := optInt max, maxF := optInt mf,
        cfg := cfgFor key, st := st }
    pure { w with exps := w.exps ++ [e] }
  | ["S", ns, name, req, count, names, conds] => do
    let cs ← parseConds sctOf conds
    let key : Key2 := { ns, name }
    let c := cfgFor key
    let reqI ← req.toInt?
    let cntI ← count.toInt?
    let st : SugSt := { conds := cs, names := dashList names, count := cntI }
    let so : SugO := { key, rv := 0, requests := reqI, resume := c.resume, es := c.es, st := st }
    pure { w with sugs := w.sugs ++ [so] }
  | ["T", ns, name, exp, del, fin, conds, compl, obs] => do
    let cs ← parseConds tctOf conds
    let c := cfgFor { ns, name := exp }
    let ob : Option (List Metrics.Metric) ←
      if obs == "-" then pure none
      else if obs == "obs=" then pure (some [])
      else do
        let ms ← ((obs.drop 4).toString.splitOn ",").mapM (fun m => match m.splitOn ":" with
          | [a, b, c, d] => some ({ name := unhex a, min := unhex b, max := unhex c, latest := unhex d } : Metrics.Metric)
          | _ => none)
        pure (some ms)
    let st : TrialSt := { conds := cs, completion := compl.toNat?, obs := ob }
    let t : TrialO :=
      { key := { ns, name }, exp, rv := 0, deleted := del == "1", fin := fin == "1",
        retain := c.retain, push := c.push, objType := c.objType, st := st }
    pure { w with trials := w.trials ++ [t] }
  | ["J", ns, name, st] =>
    let state : JobState := match st with | "s" => .succeeded | "f" => .failed | "b" => .both | _ => .running
    some { w with jobs := w.jobs ++ [{ key := { ns, name }, state }] }
  | ["D", ns, name, r] => some { w with deploys := w.deploys ++ [{ key := { ns, name }, ready := r == "1" }] }
  | ["V", ns, name] => some { w with svcs := w.svcs ++ [{ ns, name }] }
  | ["P", ns, name] => some { w with pvcs := w.pvcs ++ [{ ns, name }] }
  | ["A", ns, name] => some { w with sas := w.sas ++ [{ ns, name }] }
  | ["O", ns, name] => some { w with roles := w.roles ++ [{ ns, name }] }
  | ["B", ns, name] => some { w with rbs := w.rbs ++ [{ ns, name }] }
  | ["M", t, l] => some { w with db := w.db ++ [(t, (dashList l).map (fun x =>
      match x.splitOn "@" with
      | [n, v] => { metric := unhex n, text := unhex v, key := none, ts := none }
      | _ => { metric := objMetric, text := unhex x, key := none, ts := none }))] }
  | ["X", n] => n.toNat?.map (fun k => { w with algoN := k })
  | [] => some w
  | _ => none

def parseDump (cfgs : List ExpInit) (toks : List String) : Option World :=
  (splitOnTok ";" toks).foldlM (parseItem cfgs) {}

def opKindOf (cmd : SimCmd) (histLast : Nat) : OpKind :=
  match cmd with
  | .init _ => .init
  | .op (.recExp k _ _ _ _) => .recExp k
  | .op (.recSug k vS vE vT _ _ _) => .recSug k (vS ≥ histLast && vE ≥ histLast && vT ≥ histLast) (vT ≥ histLast)
  | .op (.recTrial k vT _) => .recTrial k (vT ≥ histLast)
  | .op (.editMax k _) => .editMax k
  | _ => .env

structure OracleSt where
  o : OSt := {}
  nops : Nat := 0      -- number of ops since init (= index of the newest snapshot)

/-- `ORACLE <prop> SIM <op> => <observed outcome>` -/
def handleSimOracle (st : OracleSt) (prop : String) (opToks out : List String) : OracleSt × String :=
  let (head, dump) := (out.takeWhile (· ≠ "|"), (out.dropWhile (· ≠ "|")).drop 1)
  let logStr := ((head.find? (·.startsWith "w=")).map (fun t => (t.drop 2).toString)).getD ""
  let log := if logStr == "" then [] else logStr.splitOn ","
  let res := ((head.find? (·.startsWith "res=")).map (fun t => (t.drop 4).toString)).getD ""
  match P.run pSimCmd opToks with
  | none => (st, "bad-op")
  | some cmd =>
    let cfgs := match cmd with | .init es => es | _ => st.o.cfgs
    match parseDump cfgs dump with
    | none => (st, "fail unparsable-store-dump")
    | some cur =>
      match cmd with
      | .init es => ({ o := { cfgs := es, prev := cur }, nops := 0 }, "pass")
      | _ =>
        -- a Trial labelled for another Experiment than the one that owns it (the harness marks it in the dump)
        if let some t := dump.find? (fun t => (t.splitOn "!owner=").length > 1) then
          ({ o := st.o, nops := st.nops + 1 }, s!"fail trial-not-labelled-for-its-owning-experiment {t}") else
        let kind : OpKind := match opToks with
          | "quiesce-begin" :: ns :: name :: _ => .quiesceBegin { ns, name }
          | "quiesce-end" :: ns :: name :: _ => .quiesceEnd { ns, name }
          | _ => opKindOf cmd st.nops
        let o := st.o
        let v := match prop with
          | "C01" => oracleC01 o kind log cur
          | "C03" => oracleC03seq o kind log cur
          | "C04" => oracleC04 o kind log cur
          | "C06" => oracleC06 o kind log cur
          | "C07" => oracleC07 o kind log cur res
          | "C08" => oracleC08 o kind log cur
          | "C09" => oracleC09 o kind log cur
          | "C16" => oracleC16 o kind log cur
          | "C17" => oracleC17sim o kind log cur
          | _ => "bad-op"
        ({ o := o.advance kind log cur, nops := st.nops + 1 }, v)

end Katib.Drv
