import Katib.Base.Parse
import Katib.Model.Sim
import Katib.Drv.Status
namespace Katib.Drv
open Katib Katib.Exp Katib.Ctl

def tctName : TCT → String
  | .created => "Created" | .running => "Running" | .succeeded => "Succeeded" | .killed => "Killed"
  | .failed => "Failed" | .metricsUnavailable => "MetricsUnavailable" | .earlyStopped => "EarlyStopped"
def sctName : SCT → String
  | .created => "Created" | .deploymentReady => "DeploymentReady" | .running => "Running"
  | .succeeded => "Succeeded" | .failed => "Failed"

def condsStr {τ : Type} (nm : τ → String) (cs : List (Cond τ)) : String :=
  if cs.isEmpty then "-" else ",".intercalate (cs.map (fun c => s!"{nm c.ty}:{b01 c.st}:{hexOf c.reason}"))

def optIntStr (o : Option Int) : String := match o with | some n => toString n | none => "none"
def optNatStr (o : Option Nat) : String := match o with | some n => toString n | none => "none"
def dashJoin (l : List String) : String := if l.isEmpty then "-" else ",".intercalate l

def dumpWorld (w : World) : String :=
  let es := w.exps.map (fun e =>
    s!"E {e.key.ns} {e.key.name} {b01 e.deleted} {b01 e.fin} {e.par} {optIntStr e.maxT} {optIntStr e.maxF} " ++
    s!"{condsStr ctName e.st.conds} {optNatStr e.st.completion} " ++
    s!"{e.st.trials}/{"/".intercalate (e.st.counts.map toString)} {e.st.opt.getD "-"}")
  let ss := w.sugs.map (fun s =>
    s!"S {s.key.ns} {s.key.name} {s.requests} {s.st.count} {dashJoin s.st.names} {condsStr sctName s.st.conds}")
  let ts := w.trials.map (fun t =>
    let obs := match t.st.obs with
      | none => "-"
      | some ms => "obs=" ++ ",".intercalate (ms.map (fun (m : Metrics.Metric) => s!"{hexOf m.name}:{hexOf m.min}:{hexOf m.max}:{hexOf m.latest}"))
    s!"T {t.key.ns} {t.key.name} {t.exp} {b01 t.deleted} {b01 t.fin} {condsStr tctName t.st.conds} {optNatStr t.st.completion} {obs}")
  let js := w.jobs.map (fun j =>
    let st := match j.state with | .running => "r" | .succeeded => "s" | .failed => "f" | .both => "b"
    s!"J {j.key.ns} {j.key.name} {st}")
  let ds := w.deploys.map (fun d => s!"D {d.key.ns} {d.key.name} {b01 d.ready}")
  let simple (tag : String) (l : List Key2) := l.map (fun k => s!"{tag} {k.ns} {k.name}")
  let ms := w.db.map (fun p => s!"M {p.1} {dashJoin (p.2.map (fun e => hexOf e.text))}")
  let all := es ++ ss ++ ts ++ js ++ ds ++ simple "V" w.svcs ++ simple "P" w.pvcs ++ simple "A" w.sas ++
    simple "O" w.roles ++ simple "B" w.rbs ++ ms ++ [s!"X {w.algoN}"]
  " ; ".intercalate (Ctl.sortS all)

def pKey2 : P Key2 := do let ns ← P.tok; let name ← P.tok; pure { ns, name }

def pResume : P Resume := do
  let t ← P.tok
  match t with
  | "never" => pure .never | "fromVolume" => pure .fromVolume | "longRunning" => pure .longRunning | _ => failure

def pObjType : P ObjType := do
  let t ← P.tok
  pure (match t with | "minimize" => .minimize | "maximize" => .maximize | _ => .other)

def pExpInit : P ExpInit := do
  let key ← pKey2
  let par ← P.int; let maxT ← P.oint; let maxF ← P.oint; let goal ← P.oint
  let objType ← pObjType; let resume ← pResume
  let es ← P.bool; let retain ← P.bool; let push ← P.bool; let labels ← P.bool
  pure { key, par, maxT, maxF, cfg := { goal, objType, resume, es, retain, push, labels } }

def pFaults : P Faults := do
  let mask ← P.nat
  let abort ← P.onat
  pure { mask, abort }

inductive SimCmd | init (es : List ExpInit) | op (o : Op)

def pSimCmd : P SimCmd := do
  let t ← P.tok
  match t with
  | "init" => do let es ← P.list pExpInit; pure (.init es)
  | "recExp" => do
    let k ← pKey2; let vE ← P.nat; let vT ← P.nat; let vS ← P.nat; let f ← pFaults
    pure (.op (.recExp k vE vT vS f))
  | "recSug" => do
    let k ← pKey2; let vS ← P.nat; let vE ← P.nat; let vT ← P.nat; let vD ← P.nat; let f ← pFaults
    let am ← P.nat; let em ← P.nat
    pure (.op (.recSug k vS vE vT vD f { algoMode := am, esMode := em }))
  | "recTrial" => do
    let k ← pKey2; let vT ← P.nat; let f ← pFaults
    pure (.op (.recTrial k vT f))
  | "job" => do
    let k ← pKey2; let w ← P.tok
    pure (.op (.job k (w == "succeeded")))
  | "metric" => do
    let t ← P.tok; let text ← P.str; let key ← P.oint
    pure (.op (.metric t text key))
  | "earlystop" => do let k ← pKey2; pure (.op (.earlyStop k))
  | "deployReady" => do let k ← pKey2; pure (.op (.deployReady k))
  | "editMax" => do let k ← pKey2; let n ← P.int; pure (.op (.editMax k n))
  | "quiesce-begin" => do let _ ← pKey2; pure (.op .noop)
  | "quiesce-end" => do let _ ← pKey2; pure (.op .noop)
  | _ => failure

/-- stateful handler: returns the new simulator state and the canonical outcome line -/
def handleSim (s : Sim) (toks : List String) : Sim × String :=
  match P.run pSimCmd toks with
  | none => (s, "bad-op")
  | some (.init es) =>
    let s' := Sim.init es
    (s', "ok | " ++ dumpWorld s'.cur)
  | some (.op o) =>
    let (s', out) := step s o
    (s', out ++ " | " ++ dumpWorld s'.cur)

end Katib.Drv
