import Katib.Base.Parse
import Katib.Model.Composer
namespace Katib.Drv
open Katib Katib.Comp

def pSug : P Sug := do
  let name ← P.str; let ns ← P.str
  let labels ← P.list (do let a ← P.str; let b ← P.str; pure (a, b))
  let algo ← P.str
  let r ← P.tok
  let resume : Resume := match r with | "never" => .never | "fromVolume" => .fromVolume | _ => .longRunning
  let e ← P.tok
  pure { name, ns, labels, algo, resume, es := if e == "none" then none else some (unhex e) }

def pCfg : P Cfg := do
  let containerName ← P.str
  let ports ← P.list (do let a ← P.str; let b ← P.int; pure (a, b))
  let serviceAccountName ← P.str
  let volumeMountPath ← P.str
  let mounts ← P.list P.str
  pure { containerName, ports, serviceAccountName, volumeMountPath, mounts }

def showLabels (l : List (String × String)) : String :=
  let items := sortStrings (l.map (fun p => hexOf p.1 ++ ":" ++ hexOf p.2))
  if items.isEmpty then "-" else ",".intercalate items

def showPorts (l : List (String × Int)) : String :=
  if l.isEmpty then "-" else ",".intercalate (l.map (fun p => hexOf p.1 ++ ":" ++ toString p.2))

def showC17 (s : Sug) (c : Cfg) : String :=
  let svc := desiredService s
  let svcS := s!"svc={hexOf svc.name}/{hexOf svc.ns} sel={showLabels svc.selector} sports={showPorts svc.ports}"
  let ep := s!"ep={hexOf (algorithmEndpoint s).1}:{(algorithmEndpoint s).2} esep={hexOf (earlyStoppingEndpoint s).1}:{(earlyStoppingEndpoint s).2}"
  let rest := s!"pvc={hexOf (pvcName s)} rbac={hexOf (rbacName s)} reconcilesRbac={b01 (reconcilesRbac s c)}"
  match desiredDeployment s c with
  | none => s!"deploy=error {svcS} {ep} {rest}"
  | some d =>
    let cts := ";".intercalate (d.containers.map (fun ct =>
      hexOf ct.name ++ "/" ++ showPorts ct.ports ++ "/" ++ (if ct.mounts.isEmpty then "-" else ",".intercalate (ct.mounts.map hexOf))))
    let vols := if d.volumes.isEmpty then "-" else ",".intercalate (d.volumes.map (fun v => hexOf v.1 ++ ":" ++ hexOf v.2))
    s!"deploy={hexOf d.name}/{hexOf d.ns} dsel={showLabels d.selector} pod={showLabels d.podLabels} cts={cts} sa={hexOf d.serviceAccount} vols={vols} {svcS} {ep} {rest}"

def handleC17 (toks : List String) : String :=
  match P.run (do let s ← pSug; let c ← pCfg; pure (s, c)) toks with
  | some (s, c) => "ok " ++ showC17 s c
  | none => "bad-op"

/-- the property on the observed objects: cross-object coherence, not equality with the model -/
def oracleLineC17 (toks out : List String) : String :=
  match P.run (do let s ← pSug; let c ← pCfg; pure (s, c)) toks with
  | none => "bad-op"
  | some (s, c) =>
    let get (k : String) : String := ((out.find? (·.startsWith (k ++ "="))).map (fun t => (t.drop (k.length + 1)).toString)).getD ""
    if out.contains "owner=bad" then "fail object-not-controller-owned-by-the-suggestion"
    else if get "deploy" == "error" then (if reservedPort c then "pass" else "fail deployment-not-generated")
    else
      let sports := (get "sports").splitOn ","
      let cts := (get "cts").splitOn ";"
      let ctPorts := cts.flatMap (fun ct => ((ct.splitOn "/").getD 1 "").splitOn ",")
      let num (p : String) := (p.splitOn ":").getD 1 ""
      let wantPorts := ["6789"] ++ (if hasES s then ["6788"] else [])
      if get "sel" != get "pod" || get "dsel" != get "pod" then "fail service-selector-does-not-select-the-deployment-pods"
      else if sports.map num != wantPorts then "fail service-ports-differ-from-suggestion-and-earlystopping-ports"
      else if !(sports.all (fun p => ctPorts.any (fun q => num q == num p))) then "fail exposed-port-without-listening-container"
      else if get "ep" != ((get "svc").replace "/" "2e") ++ ":6789" then "fail dialled-endpoint-differs-from-service-address"
      else if hasES s && get "esep" != ((get "svc").replace "/" "2e") ++ ":6788" then "fail dialled-earlystopping-endpoint-differs"
      else if get "deploy" != get "svc" then "fail names-or-namespaces-differ"
      else if s.resume == .fromVolume && (get "vols" != hexOf volumeName ++ ":" ++ get "pvc" || !((((cts.headD "").splitOn "/").getD 2 "").splitOn ",").contains (hexOf volumeName)) then
        "fail volume-claim-not-mounted"
      else if hasES s && get "sa" != get "rbac" then
        (if c.serviceAccountName != "" then "known C17-custom-service-account-no-rbac" else "fail pod-not-under-generated-service-account")
      else if hasES s && get "reconcilesRbac" != "1" then "fail rbac-not-reconciled"
      else "pass"

end Katib.Drv
