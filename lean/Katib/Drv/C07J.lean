import Katib.Base.Parse
/-!
# C07J: which run object the trial controller creates for a hand-made Trial

`reconcileJob` builds the desired object from `spec.runSpec` and makes the Trial its controller owner with
`controllerutil.SetControllerReference`, which refuses an object of another namespace than its (namespaced) owner, an object
without namespace, and an object that already has a controller owner.  So exactly one run object appears — in the Trial's
namespace, under the Trial's name, controller-owned by the Trial and by nobody else — when the run spec carries the Trial's
namespace and no controller owner of its own; otherwise the reconcile fails and nothing is created anywhere.
-/
namespace Katib.Drv
open Katib

def c07jCreates (trialNs specNs owner : String) : Bool := specNs == trialNs && owner != "controller"

/-- a Trial under deletion (whatever other finalizers it holds, completed or not): its rows are removed from the metrics
    database and then the katib finalizer is released; when the database call fails nothing is released and nothing removed.
    Rows of other Trials stay. -/
def c07jFinalizer (dbFail : Bool) : String := if dbFail then "released=0 rows=7 other=2" else "released=1 rows=0 other=2"

def handleC07J (toks : List String) : String :=
  match toks with
  | ["finalizer", _extra, dbFail, _completed] => c07jFinalizer (dbFail == "1")
  | [tns, sns, name, owner] =>
    if c07jCreates tns sns owner then s!"errs=0 jobs={tns}/{name}:1:1:1" else "errs=1 jobs=-"
  | _ => "bad-op"

/-- the property on the observed Jobs alone -/
def oracleLineC07J (toks out : List String) : String :=
  if out == ["panic"] then "fail reconcile-crashed" else
  match toks with
  | ["finalizer", _, _, _] =>
    let get (k : String) : String := ((out.find? (·.startsWith (k ++ "="))).map (fun x => (x.drop (k.length + 1)).toString)).getD ""
    if get "released" == "1" && get "rows" != "0" then "fail finalizer-released-with-observation-logs-left-in-the-database"
    else if get "other" != "2" then "fail observation-logs-of-another-trial-removed"
    else "pass"
  | [tns, _sns, name, _owner] =>
    let get (k : String) : String := ((out.find? (·.startsWith (k ++ "="))).map (fun x => (x.drop (k.length + 1)).toString)).getD ""
    let jobs := if get "jobs" == "-" || get "jobs" == "" then [] else (get "jobs").splitOn ","
    if jobs.length > 1 then "fail more-than-one-run-object"
    else match jobs with
      | [] => "pass"
      | j :: _ =>
        match j.splitOn ":" with
        | [nsname, owned, nctrl, specEq] =>
          if nsname != s!"{tns}/{name}" then "fail run-object-not-named-and-namespaced-as-the-trial"
          else if owned != "1" || nctrl != "1" then "fail run-object-not-controller-owned-by-exactly-the-trial"
          else if specEq != "1" then "fail run-object-differs-from-the-run-spec"
          else "pass"
        | _ => "bad-out"
  | _ => "bad-op"

end Katib.Drv
