import Katib.Base.Parse
import Katib.Model.Template
namespace Katib.Drv
open Katib Katib.Tpl

def pRef : P Ref := do
  let t ← P.tok
  match t with
  | "assign" => do let n ← P.str; pure (.assign n)
  | "name" => pure .metaName | "namespace" => pure .metaNamespace | "kind" => pure .metaKind | "apiVersion" => pure .metaAPIVersion
  | "annotation" => do let k ← P.str; pure (.metaAnnotation k)
  | "label" => do let k ← P.str; pure (.metaLabel k)
  | "illegal" => pure .illegal
  | _ => failure

def pSPair : P (String × String) := do let a ← P.str; let b ← P.str; pure (a, b)

def pMeta : P Meta := do
  let trialName ← P.str; let trialNamespace ← P.str; let kind ← P.str; let apiVersion ← P.str
  let annotations ← P.list pSPair; let labels ← P.list pSPair
  pure { trialName, trialNamespace, kind, apiVersion, annotations, labels }

def errStr : Err → String
  | .notInAssignment => "err notInAssignment" | .notInTrialParameters => "err notInTrialParameters" | .illegalMeta => "err illegalMeta"

def showLbl (l : List (String × String)) : String :=
  let items := sortStrings (l.map (fun p => hexOf p.1 ++ ":" ++ hexOf p.2))
  if items.isEmpty then "-" else ",".intercalate items

def handleC02 (toks : List String) : String :=
  match toks with
  | "tpl" :: r =>
    -- tpl <meta> <assignments> <params> <templateHex>
    match P.run (do let m ← pMeta; let asg ← P.list pSPair; let ps ← P.list (do let n ← P.str; let rf ← pRef; pure (n, rf)); let t ← P.str; pure (m, asg, ps, t)) r with
    | some (m, asg, ps, t) =>
      match instantiate m asg ps t with
      | .ok s => "ok " ++ hexOf s
      | .error e => errStr e
    | none => "bad-op"
  | "cm" :: r =>
    -- ConfigMap (YAML) source: only the placeholder map is modelled
    match P.run (do let m ← pMeta; let asg ← P.list pSPair; let ps ← P.list (do let n ← P.str; let rf ← pRef; pure (n, rf)); pure (m, asg, ps)) r with
    | some (m, asg, ps) =>
      match placeholders m asg ps with
      | .ok _ => "ok"
      | .error e => errStr e
    | none => "bad-op"
  | "trial" :: r =>
    match P.run (do
        let name ← P.str; let ns ← P.str; let labels ← P.list pSPair; let es ← P.bool
        let asgs ← P.list (do
          let n ← P.str; let ps ← P.list pSPair
          let hasL ← P.bool
          let ls ← P.list pSPair
          let rules ← P.list P.str
          pure ({ name := n, params := ps, labels := if hasL then some ls else none, rules } : Assignment))
        pure (({ name, ns, labels, hasEarlyStopping := es } : ExpIn), asgs)) r with
    | some (e, asgs) =>
      "ok " ++ " ".intercalate (asgs.map (fun a =>
        let t := trialInstance e a
        s!"{hexOf t.name}/{hexOf t.ns}/{showLbl t.labels}/{hexOf t.owner}/{if t.params.isEmpty then "-" else ",".intercalate (t.params.map (fun p => hexOf p.1 ++ ":" ++ hexOf p.2))}/{if t.rules.isEmpty then "-" else ",".intercalate (t.rules.map hexOf)}"))
    | none => "bad-op"
  | _ => "bad-op"

/-- the property on the observed outcome: the harness's independent tree substitution must agree (`tree=1`), the run spec is
    named and namespaced as the Trial (`named=1`), no declared placeholder is left (`left=0`) -/
def oracleLineC02 (toks out : List String) : String :=
  let want := handleC02 toks
  match toks with
  | "trial" :: _ => if " ".intercalate out == want.trimAscii.toString then "pass" else "fail trial-differs-from-its-assignment"
  | _ =>
    if want == "bad-op" then "bad-op"
    else if want.startsWith "err" then (if out.head? == some "err" then "pass" else "fail run-spec-produced-for-inconsistent-parameters")
    else if out.head? != some "ok" then "fail valid-template-rejected"
    else if out.contains "tree=0" then "fail run-spec-differs-from-template-with-placeholders-substituted"
    else if out.contains "named=0" then "fail run-spec-not-named-as-the-trial"
    else if out.contains "left=1" then "fail placeholder-left-over"
    else "pass"

end Katib.Drv
