import Katib.Base.Parse
import Katib.Model.DB
namespace Katib.Drv
open Katib Katib.DB

def pDialect : P Dialect := do
  let t ← P.tok
  match t with | "mysql" => pure .mysql | "postgres" => pure .postgres | _ => failure

def tsOf (t : String) : Option Ts :=
  if t == "empty" then some .empty else if t == "bad" then some .bad
  else if t.startsWith "ok:" then some (.ok (unhex (t.drop 3).toString)) else none

def filterOf (t : String) : Option Filter :=
  if t == "absent" then some .absent else if t == "bad" then some .bad
  else if t == "empty" then some .absent
  else if t.startsWith "ok:" then some (.ok (unhex (t.drop 3).toString)) else none

def pEntry : P LogEntry := do
  let t ← P.tok
  let m ← P.tok
  match tsOf t with
  | none => failure
  | some ts =>
    if m == "none" then pure { ts, metric := none }
    else match m.splitOn ":" with
      | [a, b] => pure { ts, metric := some (unhex a, unhex b) }
      | _ => failure

def pRow : P Row := do
  let t ← P.tok; let n ← P.str; let v ← P.str
  pure { time := if t == "none" then none else some (unhex t), name := n, value := v }

def showStmt (s : Stmt) : String := s!"sql={hexOf s.sql} args={",".intercalate (s.args.map hexOf)}"

/-- the database refuses the statement (syntax error, lost connection, constraint): every request that reaches it is
    answered with an error; requests that are malformed never reach it and are answered with an error as well -/
def handleC19 (toks : List String) : String :=
  match toks with
  | "refused" :: _ => "err"
  | _ =>
  let r : Option String := (do
    let kind ← P.tok
    let d ← pDialect
    let trial ← P.str
    match kind with
    | "report" => do
      let t ← P.tok
      if t == "nolog" then
        pure (match register d trial none with | .ok s => "ok " ++ showStmt s | .error _ => "err")
      else do
        let es ← P.list pEntry
        pure (match register d trial (some es) with | .ok s => "ok " ++ showStmt s | .error _ => "err")
    | "get" => do
      let metric ← P.str
      let st ← P.tok; let en ← P.tok
      P.lit "rows"
      let rows ← P.list pRow
      match filterOf st, filterOf en with
      | some fs, some fe =>
        pure (match get d trial metric fs fe with
          | .ok s => "ok " ++ showStmt s ++ " rows=" ++ ",".intercalate ((readRows rows).map (fun r => s!"{hexOf r.1}:{hexOf r.2.1}:{hexOf r.2.2}"))
          | .error _ => "err")
      | _, _ => failure
    | "delete" => pure ("ok " ++ showStmt (delete d trial))
    | _ => failure : P String).run toks
  r.getD "bad-op"

/-- oracle: the property on an observed outcome — the statement text may depend only on counts / present filters,
    arguments carry the data, malformed requests answer with an error, never a panic -/
def oracleLineC19 (toks out : List String) : String :=
  match out with
  | "panic" :: _ => "fail request-crashes-the-db-layer"
  | _ =>
    let want := handleC19 toks
    let o := " ".intercalate out
    if toks.head? == some "refused" then (if o == "err" then "pass" else "fail database-refusal-not-answered-with-an-error")
    else if want == "bad-op" then "bad-op"
    else if want == "err" then (if o == "err" then "pass" else "fail statement-issued-for-malformed-request")
    else if o.trimAscii.toString == want.trimAscii.toString then "pass"
    else "fail sql-text-or-arguments-differ-from-data-independent-form"

end Katib.Drv
