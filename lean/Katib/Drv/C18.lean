import Katib.Base.Parse
import Katib.Model.Goptuna
import Katib.Drv.C02
namespace Katib.Drv
open Katib Katib.Gop

def pKState : P KState := do
  let t ← P.tok
  match t with
  | "CREATED" => pure .created | "RUNNING" => pure .running | "SUCCEEDED" => pure .succeeded | "KILLED" => pure .killed
  | "FAILED" => pure .failed | "METRICSUNAVAILABLE" => pure .metricsUnavailable | "EARLYSTOPPED" => pure .earlyStopped | "UNKNOWN" => pure .unknown
  | _ => failure

def pKTrial : P KTrial := do
  let name ← P.str; let state ← pKState; let params ← P.list pSPair; let convertible ← P.bool
  pure { name, state, params, convertible }

structure SpaceParam where
  name : String
  typ : String           -- int | double | categorical | discrete
  min : String
  max : String
  step : String
  list : List String

def pSpaceParam : P SpaceParam := do
  let name ← P.str; let typ ← P.tok; let min ← P.str; let max ← P.str; let step ← P.str; let list ← P.list P.str
  pure { name, typ, min, max, step, list }

/-- `req <space> <nreq> <katib trials> <observed reply>` -/
def pReq : P (List SpaceParam × Nat × List KTrial × List Params) := do
  let sp ← P.list pSpaceParam; let n ← P.nat; let ks ← P.list pKTrial; let reply ← P.list (P.list pSPair)
  pure (sp, n, ks, reply)

def gstateStr : GState → String
  | .running => "Running" | .complete => "Complete" | .pruned => "Pruned" | .fail => "Fail"

def showSvc (s : Svc) : String :=
  let items := sortStrings (s.mapping.map (fun p =>
    hexOf p.1 ++ ":" ++ (match getTrial s.trials p.2 with | some t => gstateStr t.state ++ ":" ++ ",".intercalate (t.params.map (fun q => hexOf q.1 ++ "=" ++ hexOf q.2)) | none => "?")))
  s!"n={s.trials.length} map={if items.isEmpty then "-" else ";".intercalate items}"

def handleC18 (s : Svc) (toks : List String) : Svc × String :=
  match toks with
  | ["new"] => ({}, "ok")
  | "req" :: r =>
    match P.run pReq r with
    | some (_, _, ks, reply) =>
      (match request s ks reply with
       | .ok s' => (s', "ok " ++ showSvc s')
       | .error .convert => (s, "err convert")
       | .error .notFound => (s, "err notFound")
       | .error .storage => (s, "err storage"))
    | none => (s, "bad-op")
  | _ => (s, "bad-op")

/-! ### feasibility oracle: exact decimal arithmetic -/

/-- `[-]digits[.digits]` → (mantissa, number of fraction digits) -/
def parseDec (s : String) : Option (Int × Nat) :=
  let cs := s.toList
  let (neg, cs) := match cs with | '-' :: r => (true, r) | '+' :: r => (false, r) | _ => (false, cs)
  let ip := cs.takeWhile (· != '.')
  let rest := cs.dropWhile (· != '.')
  let fp := match rest with | '.' :: r => r | _ => []
  if (ip.isEmpty && fp.isEmpty) || !(ip ++ fp).all Char.isDigit || (rest.length > 0 && rest.head? != some '.') then none
  else
    let m : Nat := (ip ++ fp).foldl (fun acc c => acc * 10 + (c.toNat - '0'.toNat)) 0
    some (if neg then - (m : Int) else (m : Int), fp.length)

/-- rescale to `k` fraction digits (k ≥ own scale) -/
def atScale (d : Int × Nat) (k : Nat) : Int := d.1 * (10 : Int) ^ (k - d.2)

def natAbs' (i : Int) : Nat := i.natAbs

/-- verdict for one value of one parameter: "ok", "known", or a failure reason -/
def feasible (p : SpaceParam) (v : String) : String :=
  if p.typ == "categorical" || p.typ == "discrete" then (if p.list.contains v then "ok" else "fail value-not-in-list")
  else
    match parseDec v, parseDec p.min, parseDec p.max with
    | some dv, some dmin, some dmax =>
      let dstep := if p.step == "" then none else parseDec p.step
      if p.typ == "int" then
        if dv.2 != 0 then "fail int-parameter-got-fraction" else
        let step : Int := match dstep with | some st => st.1 | none => 1
        let nondiv := step > 0 && (dmax.1 - dmin.1) % step != 0
        if dv.1 < dmin.1 then "fail below-min"
        else if dv.1 > dmax.1 then (if nondiv then "known" else "fail above-max")
        else if step > 0 && (dv.1 - dmin.1) % step != 0 then "fail off-grid"
        else "ok"
      else
        let k := List.foldl Nat.max 0 [dv.2, dmin.2, dmax.2, (dstep.map (·.2)).getD 0, 9]
        let v := atScale dv k; let lo := atScale dmin k; let hi := atScale dmax k
        let tol : Int := (10 : Int) ^ (k - 9) * (Int.ofNat (Nat.max 1 (Nat.max (natAbs' dmin.1 / 10 ^ dmin.2) (natAbs' dmax.1 / 10 ^ dmax.2))))
        match dstep with
        | none => if v < lo then "fail below-min" else if v > hi then "fail above-max" else "ok"
        | some ds =>
          let st := atScale ds k
          let nondiv := st > 0 && (hi - lo) % st != 0
          if v < lo - tol then "fail below-min"
          else if v > hi + tol then (if nondiv then "known" else "fail above-max")
          else if st > 0 && (let r := (v - lo) % st; !(r ≤ tol || st - r ≤ tol)) then "fail off-grid"
          else "ok"
    | _, _, _ => "fail unparsable-value"

def oracleLineC18 (toks out : List String) : String :=
  match toks with
  | ["new"] => "pass"
  | "req" :: r =>
    match P.run pReq r with
    | some (sp, n, ks, reply) =>
      let own := ks.all (·.convertible)
      if out.head? == some "panic" then "fail service-crashed"
      else if out.head? == some "err" then (if own then "fail request-failed-on-own-history:" ++ (out.getD 1 "") else "pass")
      else if reply.length != n then "fail wrong-number-of-assignments"
      else
        let verdicts := reply.flatMap (fun a =>
          (if sortStrings (a.map (·.1)) != sortStrings (sp.map (·.name)) then ["fail not-exactly-one-value-per-parameter"] else []) ++
          a.map (fun nv => match sp.find? (·.name == nv.1) with | some p => feasible p nv.2 | none => "fail unknown-parameter"))
        match verdicts.find? (·.startsWith "fail") with
        | some f => f
        | none => if verdicts.contains "known" then "known C18-non-dividing-step" else "pass"
    | none => "bad-op"
  | _ => "bad-op"

end Katib.Drv
