import Katib.Base.Parse
/-!
# C08S: sequences of `SyncAssignments` calls whose assignments Katib names itself

Model of one call (pkg/controller.v1beta1/suggestion/suggestionclient `SyncAssignments`, the part C08 is about): with
`cur = requests − count`, nothing happens when `cur ≤ 0`; a reply of exactly `cur` assignments is appended, each under a
fresh name; any other reply (short, long, RPC error) leaves the status unchanged and returns an error.  Names are
canonicalised by first appearance, so "fresh" means: the list is always `n0, n1, …, n(count−1)`.
-/
namespace Katib.Drv
open Katib

structure SyncSt where
  count : Nat := 0
  deriving Repr

def syncRound (st : SyncSt) (req : Int) (kind : String) : SyncSt × Bool :=
  let cur := req - (st.count : Int)
  if cur ≤ 0 then (st, false)
  else if kind == "ok" then ({ count := st.count + cur.toNat }, false)
  else (st, true)

def canonNames (n : Nat) : String := if n == 0 then "-" else ",".intercalate ((List.range n).map (fun i => s!"n{i}"))

def parseRounds : List String → List (Int × String)
  | r :: k :: rest => (r.toInt?.getD 0, k) :: parseRounds rest
  | _ => []

def handleC08S (toks : List String) : String :=
  match toks with
  | _n :: rest =>
    let rounds := parseRounds rest
    let (_, outs) := rounds.foldl (fun (acc : SyncSt × List String) r =>
      let (st', err) := syncRound acc.1 r.1 r.2
      -- the request the service receives: current = requests − suggestionCount, total = requests (C09); none when nothing is due
      let cur := r.1 - (acc.1.count : Int)
      let ask := if cur ≤ 0 then "cur=- tot=-" else s!"cur={cur} tot={r.1}"
      (st', acc.2 ++ [s!"err={if err then "1" else "0"} count={st'.count} names={canonNames st'.count} prefix=1 old=1 {ask}"])) ({}, [])
    " ; ".intercalate outs
  | _ => "bad-op"

/-- the property on the observed statuses alone: names unique, count = length, earlier entries untouched, the list never
    longer than the largest request so far, and it grows only by exactly `requests − count` on a correctly sized reply -/
def oracleLineC08S (toks out : List String) : String :=
  if out == ["panic"] then "fail sync-crashed" else
  match toks with
  | _n :: rest =>
    let rounds := parseRounds rest
    let obs := (" ".intercalate out).splitOn " ; "
    if obs.length != rounds.length then "fail rounds-missing" else
    let get (l : List String) (k : String) : String := ((l.find? (·.startsWith (k ++ "="))).map (fun x => (x.drop (k.length + 1)).toString)).getD ""
    let step (acc : Nat × Int × Option String) (ro : (Int × String) × String) : Nat × Int × Option String :=
      let (prevLen, maxReq, bad) := acc
      if bad.isSome then acc else
      let ((req, kind), o) := ro
      let f := o.splitOn " "
      let names := if get f "names" == "-" then [] else (get f "names").splitOn ","
      let cnt := (get f "count").toInt?.getD (-1)
      let maxReq' := if req > maxReq then req else maxReq
      let cur := req - (prevLen : Int)
      let b : Option String :=
        if names.eraseDups.length != names.length then some "duplicate-assignment-name"
        else if cnt != (names.length : Int) then some "suggestionCount-differs-from-list-length"
        else if get f "old" != "1" then some "earlier-assignments-altered"
        else if get f "prefix" != "1" then some "generated-name-without-suggestion-prefix"
        else if (names.length : Int) > maxReq' then some "more-suggestions-than-ever-requested"
        else if names.length < prevLen then some "assignments-dropped"
        else if cur > 0 && kind == "ok" && (names.length : Int) != req then some "correct-reply-not-appended-exactly"
        else if (cur ≤ 0 || kind != "ok") && names.length != prevLen then some "assignments-changed-without-a-correct-reply"
        else if (cur > 0 && kind != "ok") != (get f "err" == "1") then some "error-not-reported-or-spurious"
        else if cur > 0 && (get f "cur" != toString cur || get f "tot" != toString req) then
          some s!"request-numbers-differ-from-requests-minus-suggestionCount-and-requests cur={get f "cur"} tot={get f "tot"}"
        else if cur ≤ 0 && get f "cur" != "-" then some "algorithm-called-although-nothing-was-requested"
        else none
      (names.length, maxReq', b)
    match ((rounds.zip obs).foldl step (0, 0, none)).2.2 with
    | some b => "fail " ++ b
    | none => "pass"
  | _ => "bad-op"

end Katib.Drv
