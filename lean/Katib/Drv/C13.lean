import Katib.Base.Parse
import Katib.Model.LogParse
namespace Katib.Drv
open Katib Katib.Log

def pMatch : P Match := do
  let groups ← P.nat; let name ← P.str; let value ← P.str
  pure { groups, name, value }

def pTextLine : P TextLine := do
  let isMetricLine ← P.bool
  let t ← P.tok
  let found ← P.list (P.list pMatch)
  pure { isMetricLine, firstToken := if t == "none" then none else some (unhex t), found }

def pOptIntX : P (Option Int) := do
  let t ← P.tok
  if t == "x" then pure none else match t.toInt? with | some n => pure (some n) | none => failure

def pJTs : P JTs := do
  let t ← P.tok
  match t with
  | "absent" => pure .absent
  | "strbad" => pure (.str none)
  | "other" => pure .other
  | "str" => do let s ← P.str; pure (.str (some s))
  | "num" => do
    let sec ← pOptIntX
    let f ← P.tok
    let digits ← P.nat
    let frac : Option (Option Int) := if f == "none" then none else if f == "x" then some none else some f.toInt?
    pure (.num sec frac digits)
  | _ => failure

def pJLine : P JLine := do
  let t ← P.tok
  match t with
  | "empty" => pure .empty
  | "invalid" => pure .invalid
  | "obj" => do
    let ts ← pJTs
    let vals ← P.list (do let v ← P.tok; pure (if v == "none" then none else some (unhex v)))
    pure (.obj ts vals)
  | _ => failure

def showRec (r : Rec) : String := s!"t:{hexOf r.ts}/{hexOf r.name}/{hexOf r.value}"
def showJRec (r : JRec) : String :=
  (match r.ts with | .text s => "t:" ++ hexOf s | .nanos n => "n:" ++ toString n) ++ s!"/{hexOf r.name}/{hexOf r.value}"

def handleC13 (toks : List String) : String :=
  match toks with
  | "text" :: r =>
    match P.run (do let ms ← P.list P.str; let ls ← P.list pTextLine; pure (ms, ls)) r with
    | some (ms, ls) =>
      match parseText ls ms with
      | some recs => "ok " ++ " ".intercalate (recs.map showRec)
      | none => "panic"
    | none => "bad-op"
  | "json" :: r =>
    match P.run (do let ms ← P.list P.str; let ls ← P.list pJLine; pure (ms, ls)) r with
    | some (ms, ls) =>
      match parseJson ls ms with
      | none => "err"
      | some none => "panic"
      | some (some recs) => "ok " ++ " ".intercalate (recs.map showJRec)
    | none => "bad-op"
  | _ => "bad-op"

/-- the instant a JSON number denotes, in nanoseconds, from its decimal digits (sign handled; fraction cut to 9 digits) -/
def specEpochNanos (sec : Int) (frac : Option Int) (digits : Nat) (negative : Bool) : Int :=
  let f : Int := match frac with | some n => n | none => 0
  let scaled : Int := if digits ≤ 9 then f * (10 : Int) ^ (9 - digits) else f / (10 : Int) ^ (digits - 9)
  if negative then sec * 1000000000 - scaled else sec * 1000000000 + scaled

/-- oracle: text part and JSON part must equal the specification; numeric timestamps must denote the same instant -/
def oracleLineC13 (toks out : List String) : String :=
  if out == ["panic"] then
    (match toks with
     | _ :: "0" :: _ => "pass"      -- empty metric list: excluded by the caller's contract
     | _ => "fail parser-crashed")
  else
  let want := handleC13 toks
  if want == "bad-op" then "bad-op" else
  match toks with
  | "json" :: r =>
    match P.run (do let ms ← P.list P.str; let ls ← P.list pJLine; pure (ms, ls)) r with
    | some (ms, ls) =>
      -- the instants of the numeric timestamps, as the property demands them
      let bad := ls.any (fun l => match l with
        | .obj (.num (some s) f d) vals =>
          let neg := decide (s < 0)    -- "-0.5" has sec = 0: sign lost, treated as known region below
          vals.any (·.isSome) && (match f with
            | none => false
            | some (some n) => specEpochNanos s (some n) d neg != unixNanos s n
            | some none => true)
        | _ => false)
      let same := " ".intercalate out == want.trimAscii.toString
      if same && !bad then "pass"
      else if same && bad then "known C13-epoch-fraction-as-nanoseconds"
      else if ms.isEmpty then "pass"
      else "fail reported-records-differ-from-the-tracked-occurrences"
    | none => "bad-op"
  | _ => if " ".intercalate out == want.trimAscii.toString then "pass" else "fail reported-records-differ-from-the-tracked-occurrences"

end Katib.Drv
