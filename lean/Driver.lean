import Katib.Base.Hex
import Katib.Drv.C11
import Katib.Drv.Status
import Katib.Drv.Sim
import Katib.Drv.C19
import Katib.Drv.C15
import Katib.Drv.C08S
import Katib.Drv.C07J
import Katib.Drv.C06J
import Katib.Drv.C04D
import Katib.Drv.C10
import Katib.Drv.C17
import Katib.Drv.C13
import Katib.Drv.C20
import Katib.Drv.C02
import Katib.Drv.C12
import Katib.Drv.C14
import Katib.Drv.C18
import Katib.Oracle.Sim
open Katib Katib.Drv

/-- model output for one op line -/
def handle (toks : List String) : String :=
  match toks with
  | "C11" :: r => handleC11 r
  | "C11F" :: r => handleC11F r
  | "C05" :: r => handleStatus r
  | "C03" :: r => handleStatus r
  | "C19" :: r => handleC19 r
  | "C15" :: r => handleC15 r
  | "C08S" :: r => handleC08S r
  | "C07J" :: r => handleC07J r
  | "C06J" :: r => handleC06J r
  | "C04D" :: r => handleC04D r
  | "C10" :: r => handleC10 r
  | "C17" :: r => handleC17 r
  | "C13" :: r => handleC13 r
  | "C20" :: r => handleC20 r
  | "C02" :: r => handleC02 r
  | "C12" :: r => handleC12 r
  | "C14" :: r => handleC14 r
  | "HARNESS-TIMEOUT" :: _ => "returns"
  | _ => "bad-op"

/-- oracle verdict for one `op => observed-output` line -/
def handleOracle (toks out : List String) : String :=
  match toks with
  | "C11" :: r => oracleLineC11 r out
  | "C11F" :: r => oracleLineC11F r out
  | "C05" :: r => oracleLineStatus "C05" r out
  | "C03" :: r => oracleLineStatus "C03" r out
  | "C19" :: r => oracleLineC19 r out
  | "C15" :: r => oracleLineC15 r out
  | "C08S" :: r => oracleLineC08S r out
  | "C07J" :: r => oracleLineC07J r out
  | "C06J" :: r => oracleLineC06J r out
  | "C04D" :: r => oracleLineC04D r out
  | "C10" :: r => oracleLineC10 r out
  | "C17" :: r => oracleLineC17 r out
  | "C13" :: r => oracleLineC13 r out
  | "C20" :: r => oracleLineC20 r out
  | "C02" :: r => oracleLineC02 r out
  | "C12" :: r => oracleLineC12 r out
  | "C14" :: r => oracleLineC14 r out
  | "C18" :: r => oracleLineC18 r out
  | "HARNESS-TIMEOUT" :: _ => "fail implementation-did-not-return-on-this-case"
  | _ => "bad-op"

def splitArrow (toks : List String) : List String × List String :=
  (toks.takeWhile (· ≠ "=>"), (toks.dropWhile (· ≠ "=>")).drop 1)

structure DrvState where
  sim : Katib.Ctl.Sim := {}
  orc : OracleSt := {}
  gop : Katib.Gop.Svc := {}

def handleLine (st : DrvState) (line : String) : DrvState × String :=
  match tokens line with
  | "ORACLE" :: prop :: "SIM" :: r =>
    let (a, b) := splitArrow r
    let (o', v) := handleSimOracle st.orc prop a b
    ({ st with orc := o' }, v)
  | "ORACLE" :: r => let (a, b) := splitArrow r; (st, handleOracle a b)
  | "SIM" :: r => let (s', out) := handleSim st.sim r; ({ st with sim := s' }, out)
  | "C18" :: r => let (g', out) := handleC18 st.gop r; ({ st with gop := g' }, out)
  | toks => (st, handle toks)

partial def loop (h : IO.FS.Stream) (out : IO.FS.Stream) (st : DrvState) : IO Unit := do
  let line ← h.getLine
  if line.isEmpty then return ()
  let (st', r) := handleLine st line
  out.putStrLn r
  loop h out st'

def main : IO Unit := do
  let out ← IO.getStdout
  loop (← IO.getStdin) out {}
