import Katib.Base.Hex
import Katib.Drv.C11
import Katib.Drv.Status
open Katib Katib.Drv

/-- model output for one op line -/
def handle (toks : List String) : String :=
  match toks with
  | "C11" :: r => handleC11 r
  | "C05" :: r => handleStatus r
  | "C03" :: r => handleStatus r
  | _ => "bad-op"

/-- oracle verdict for one `op => observed-output` line -/
def handleOracle (toks out : List String) : String :=
  match toks with
  | "C11" :: r => oracleLineC11 r out
  | "C05" :: r => oracleLineStatus "C05" r out
  | "C03" :: r => oracleLineStatus "C03" r out
  | _ => "bad-op"

def splitArrow (toks : List String) : List String × List String :=
  (toks.takeWhile (· ≠ "=>"), (toks.dropWhile (· ≠ "=>")).drop 1)

def handleLine (line : String) : String :=
  match tokens line with
  | "ORACLE" :: r => let (a, b) := splitArrow r; handleOracle a b
  | toks => handle toks

partial def loop (h : IO.FS.Stream) (out : IO.FS.Stream) : IO Unit := do
  let line ← h.getLine
  if line.isEmpty then return ()
  out.putStrLn (handleLine line)
  loop h out

def main : IO Unit := do
  let out ← IO.getStdout
  loop (← IO.getStdin) out
